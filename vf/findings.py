"""Mechanism classifiers for known findings.

classify(pid, case, result) returns the key of the known-finding mechanism a
violation belongs to, or None.  Keys name mechanisms, never seeds or values; a
violation is suppressed only if its key is listed with status "known" in
/verif/known_findings.json, which is read-only at run time.
"""

CLASSIFIERS = {}


def classifier(pid):
    def deco(f):
        CLASSIFIERS.setdefault(pid, []).append(f)
        return f
    return deco


def classify(pid, case, result):
    for f in CLASSIFIERS.get(pid, []):
        try:
            key = f(case, result)
        except Exception:
            key = None
        if key:
            return key
    return None
