"""Mechanism classifiers for known findings.

classify(pid, case, result) returns the key of the known-finding mechanism a
violation belongs to, or None.  Keys name mechanisms, never seeds or values; a
violation is suppressed only if its key is listed with status "known" in
/verif/known_findings.json, which is read-only at run time.
"""

CLASSIFIERS = {}


def classifier(pid):
    def deco(f):
        CLASSIFIERS.setdefault(pid, []).append(f)
        return f
    return deco


def classify(pid, case, result):
    for f in CLASSIFIERS.get(pid, []):
        try:
            key = f(case, result)
        except Exception:
            key = None
        if key:
            return key
    return None


@classifier("C06")
def c06_kb_worstcase(case, result):
    """Stated accuracy exceeded, in >= 2 transform dimensions, by at most the separable
    worst-case bound 1 - prod_d (1 - e1) of the default Kaiser-Bessel kernels."""
    from vf.workloads.c06 import sep_bound
    if result.get("mech") != "threshold":
        return None
    w = result.get("witness") or {}
    nd, ov, width, err = w.get("nd"), w.get("oversamp"), w.get("width"), w.get("err")
    if nd is None or err is None or width != 4 or ov not in (1.25, 2, 2.0):
        return None
    if nd >= 2 and err <= sep_bound(ov, nd):
        return "C06/kb-kernel-worstcase-multidim"
    return None


@classifier("C15")
def c15_sdmm_vacuous_stop(case, result):
    """SDMM built without any constraint (L = [], c_max = c_norm = None): its stop flag is the
    vacuous 'all constraints satisfied', so done() is true after the first update."""
    if result.get("mech") == "early-stop:SDMM" and case.get("alg") == "SDMM" \
            and (result.get("obs") or {}).get("updates") == 1:
        return "C15/sdmm-unconstrained-vacuous-stop"
    return None


@classifier("C20")
def c20_spokes_long_blip(case, result):
    """Some in-plane blip returned by trap_grad during the spokes_grad call has more samples
    than the slice-select sub-pulse: it is spliced over the previous spoke's samples."""
    if case.get("gen") != "spokes" or not str(result.get("mech", "")).startswith("spokes-"):
        return None
    w = result.get("witness") or {}
    blips, nsub = w.get("blip_samples"), w.get("subpulse_samples")
    if blips and nsub and max(blips) > nsub:
        return "C20/spokes-blip-longer-than-subpulse"
    return None


@classifier("C14")
def c14_cg_singular_normal(case, result):
    """LinearLeastSquares with ConjugateGradient (also the default solver) on an
    underdetermined system with lamda = 0: A^H A is singular, CG reaches the optimum and, pushed
    on by max_iter with tol = 0, divides round-off by round-off and leaves it again."""
    if case.get("gen") == "lls-wide" and case.get("solver") in (None, "ConjugateGradient") \
            and str(result.get("mech", "")).startswith("wide-suboptimal:"):
        return "C14/cg-singular-normal-operator-diverges"
    return None
