"""Worker process: installs the monitors, then runs cases sent by the parent.

Protocol (one JSON object per line): parent -> {"case": {...}} | {"quit": true};
worker -> "@@R " + JSON result.  Library output on stdout is redirected to
stderr so it cannot corrupt the protocol.
"""
import faulthandler
import importlib
import json
import os
import sys
import time
import traceback


def main():
    pid = sys.argv[1]
    proto = os.fdopen(os.dup(1), "w")
    os.dup2(2, 1)
    faulthandler.enable(all_threads=True)

    def emit(obj):
        proto.write("@@R " + json.dumps(obj, default=_default) + "\n")
        proto.flush()

    import warnings
    warnings.simplefilter("ignore")
    import numpy as np
    np.seterr(all="ignore")
    from vf import monitors
    from vf.monitors import STATE
    from vf.monitors.alg_mon import MonitorAbort
    monitors.install()
    mod = importlib.import_module("vf.workloads." + pid.lower())
    if hasattr(mod, "worker_init"):
        mod.worker_init()
    emit({"ready": True})

    for line in sys.stdin:
        line = line.strip()
        if not line:
            continue
        msg = json.loads(line)
        if msg.get("quit"):
            break
        case = msg["case"]
        before = STATE.snapshot_counts()
        STATE.drain()
        STATE.peak = 0.0
        rs = case.get("rs", [0])
        np.random.seed([int(v) % (2 ** 32) for v in rs])
        faulthandler.dump_traceback_later(
            max(5.0, case.get("timeout", 120.0) - 3.0), exit=False)
        t0 = time.time()
        try:
            res = _run_ambient(mod, case)
        except MonitorAbort as e:
            res = {"verdict": "violated", "sig": "monitor-abort",
                   "why": "MonitorAbort: %s" % e}
        except Exception as exc:
            # An exception that escapes a workload: if it was raised inside the library under
            # test (innermost frame in $VERIF_REPO_DIR/sigpy) on an input the workload considers
            # valid, that is a failure of the library - every workload catches the rejections
            # it expects, and none escapes on the unchanged tree.  Anything else is a harness
            # error (inconclusive).
            inn = exc
            while inn.__cause__ is not None:
                inn = inn.__cause__
            tb = traceback.extract_tb(inn.__traceback__)
            repo = os.path.join(os.environ.get("VERIF_REPO_DIR", "/repo"), "sigpy")
            if tb and tb[-1].filename.startswith(repo):
                res = {"verdict": "violated", "sig": "library-raised",
                       "mech": "library-raised:" + type(inn).__name__,
                       "why": "the library raised %s: %s (at %s:%d) on an input the workload "
                              "treats as valid" % (type(inn).__name__, str(inn)[:200],
                                                   tb[-1].filename[len(repo) + 1:], tb[-1].lineno),
                       "witness": {"case": {k: v for k, v in case.items() if k != "rs"}}}
            else:
                res = {"verdict": "inconclusive", "sig": "harness-error",
                       "nontrivial": False,
                       "why": "harness error: " + traceback.format_exc()[-1500:]}
        faulthandler.cancel_dump_traceback_later()
        if res.get("verdict") == "violated" and "can't unbox array from PyObject" in str(
                res.get("why", "")):
            # numba's dispatcher could not unbox an ndarray argument of a kernel it had loaded
            # from its on-disk cache (seen once, with a cache directory that several check
            # runs had been writing concurrently; gone with a fresh cache): infrastructure
            res = {"verdict": "inconclusive", "sig": "jit-cache-dispatch", "nontrivial": False,
                   "why": "numba cache / dispatcher error: " + str(res.get("why"))[:200]}
        if res.get("verdict") == "violated" and "nbcache-" in str(res.get("why", "")):
            # the JIT cache directory was disturbed from outside: infrastructure, not sigpy
            res = {"verdict": "inconclusive", "sig": "jit-cache-io", "nontrivial": False,
                   "why": "numba cache I/O error: " + str(res.get("why"))[:300]}
        res.setdefault("nontrivial", True)
        res.setdefault("sig", case["gen"])
        res["id"] = case["id"]
        res["gen"] = case["gen"]
        res["cpu_s"] = round(time.time() - t0, 3)
        # monitor events: those of this property decide, others are side observations
        evs = STATE.drain()
        mine = [e for e in evs if e["prop"] == pid]
        allowed = set(getattr(mod, "SPEC", {}).get("expected_monitor_kinds", []))
        mine = [e for e in mine if e["kind"] not in allowed
                and not any(e["kind"].startswith(a) for a in allowed if a.endswith(":"))]
        if mine and res["verdict"] != "violated" and not res.get("monitor_events_handled"):
            res["verdict"] = "violated"
            res["why"] = "monitor: " + "; ".join(
                "%s %s" % (e["kind"], e["detail"]) for e in mine[:3])
            res["mech"] = "monitor:" + mine[0]["kind"]
        if evs:
            res["monitor_events"] = evs[:6]
        delta = STATE.snapshot_counts() - before
        res["mon"] = {k: v for k, v in delta.items() if v}
        emit(res)


def _run_ambient(mod, case):
    """Run one case under a varied *ambient* state of the process - things no argument
    carries: the thread the call is made from (a seventh of the cases run in a fresh non-main
    thread, as a GUI or a thread pool would call the library), and NumPy's floating-point
    error mode (a ninth run under np.errstate(all="ignore"), the mode many scripts set
    globally).  Results must not depend on either."""
    import numpy as np
    cid = int(case.get("id", 0))
    mode = os.environ.get("VF_AMBIENT", "1")

    def call():
        if mode == "1" and cid % 9 == 4:
            with np.errstate(all="ignore"):
                return mod.run_case(case)
        return mod.run_case(case)
    if mode == "1" and cid % 7 == 3 and not case.get("fresh"):
        import threading
        box = {}

        def target():
            try:
                box["res"] = call()
            except BaseException as e:          # re-raised in the main thread below
                box["exc"] = e
        t = threading.Thread(target=target, name="vf-case-thread")
        t.start()
        t.join()
        if "exc" in box:
            raise box["exc"]
        from vf.monitors import STATE as _ST
        _ST.count["ambient:non-main-thread"] += 1
        return box["res"]
    return call()


def _default(o):
    try:
        import numpy as np
        if isinstance(o, np.generic):
            return o.item()
        if isinstance(o, np.ndarray):
            if o.size <= 64:
                if np.iscomplexobj(o):
                    return [[float(v.real), float(v.imag)] for v in o.ravel()]
                return o.tolist()
            return "array%s" % (o.shape,)
        if isinstance(o, complex):
            return [o.real, o.imag]
    except Exception:
        pass
    return str(o)


if __name__ == "__main__":
    main()
