"""Pure-Python definition of sigpy.interpolate / sigpy.gridding written from the
docstring:  y[j] = sum_{i : ||i - c_j||_inf <= W/2} prod_d K((i_d - c_{j,d}) / (W_d/2); p_d) x[i mod n].
K = cardinal B-spline of order 0/1/2 (as documented) or I0(beta sqrt(1 - u^2)) with I0
from its power series (independent of sigpy's polynomial approximation)."""
import itertools
import math

import numpy as np


def bessel_i0(x):
    # power series sum_k ((x/2)^(2k) / (k!)^2), converged to 1e-17 relative
    t = (x / 2.0) ** 2
    term = 1.0
    s = 1.0
    k = 0
    while True:
        k += 1
        term *= t / (k * k)
        s += term
        if term < 1e-17 * s:
            return s


def kernel(u, kind, param):
    if abs(u) > 1:
        return 0.0
    if kind == "spline":
        if param == 0:
            return 1.0
        if param == 1:
            return 1.0 - abs(u)
        if param == 2:
            if abs(u) > 1 / 3:
                return 9 / 8 * (1 - abs(u)) ** 2
            return 3 / 4 * (1 - 3 * u ** 2)
        raise ValueError(param)
    return bessel_i0(param * (1 - u ** 2) ** 0.5)


def _per_axis(v, nd):
    if np.isscalar(v):
        return [float(v)] * nd
    return [float(a) for a in v]


def taps(c, grid, kind, width, param):
    """All (index tuple (wrapped), weight) pairs for one coordinate c (length nd)."""
    nd = len(grid)
    W = _per_axis(width, nd)
    Pm = _per_axis(param, nd)
    per = []
    for d in range(nd):
        lo = math.ceil(c[d] - W[d] / 2)
        hi = math.floor(c[d] + W[d] / 2)
        per.append([(i % grid[d], kernel((i - c[d]) / (W[d] / 2), kind, Pm[d]))
                    for i in range(lo, hi + 1)])
    out = []
    for combo in itertools.product(*per):
        w = 1.0
        for _, wd in combo:
            w *= wd
        out.append((tuple(i for i, _ in combo), w))
    return out


def interpolate(x, coord, kind, width, param):
    """Returns (output, absbound) where absbound[j] = sum |w| |x| (for tolerances)."""
    nd = coord.shape[-1]
    grid = x.shape[-nd:]
    batch = x.shape[:-nd]
    pts = coord.shape[:-1]
    xb = x.reshape((-1,) + tuple(grid))
    cf = coord.reshape(-1, nd)
    out = np.zeros((xb.shape[0], cf.shape[0]), np.result_type(x.dtype, np.float64))
    ab = np.zeros((xb.shape[0], cf.shape[0]))
    for j in range(cf.shape[0]):
        for idx, w in taps(cf[j], grid, kind, width, param):
            for b in range(xb.shape[0]):
                v = xb[(b,) + idx]
                out[b, j] += w * v
                ab[b, j] += abs(w) * abs(v)
    return out.reshape(batch + pts), ab.reshape(batch + pts)


def gridding(y, coord, shape, kind, width, param):
    nd = coord.shape[-1]
    grid = tuple(shape[-nd:])
    batch = tuple(shape[:-nd])
    cf = coord.reshape(-1, nd)
    yb = y.reshape(-1, cf.shape[0])
    out = np.zeros((yb.shape[0],) + grid, np.result_type(y.dtype, np.float64))
    ab = np.zeros((yb.shape[0],) + grid)
    for j in range(cf.shape[0]):
        for idx, w in taps(cf[j], grid, kind, width, param):
            for b in range(yb.shape[0]):
                out[(b,) + idx] += w * yb[b, j]
                ab[(b,) + idx] += abs(w) * abs(yb[b, j])
    return out.reshape(batch + grid), ab.reshape(batch + grid)
