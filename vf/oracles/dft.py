"""Explicit DFT-matrix definition of the centred / uncentred, orthonormal or
unnormalised discrete Fourier transform, and centre-aligned resize.  Pure numpy."""
import numpy as np


def dft_matrix(n, center=True, inverse=False, norm="ortho"):
    c = n // 2 if center else 0
    k = np.arange(n) - c
    sign = 1.0 if inverse else -1.0
    F = np.exp(sign * 2j * np.pi * np.outer(k, k) / n)
    if norm == "ortho":
        F = F / np.sqrt(n)
    elif inverse:
        F = F / n
    return F


def center_resize(x, oshape):
    """Zero-pad / crop so that index n//2 of the input lands on index m//2."""
    x = np.asarray(x)
    assert x.ndim == len(oshape)
    out = np.zeros(oshape, dtype=x.dtype)
    src, dst = [], []
    for n, m in zip(x.shape, oshape):
        off = m // 2 - n // 2          # output index = input index + off
        lo = max(0, -off)              # first input index that survives
        hi = min(n, m - off)
        src.append(slice(lo, hi))
        dst.append(slice(lo + off, hi + off))
    out[tuple(dst)] = x[tuple(src)]
    return out


def dft(x, axes=None, center=True, inverse=False, norm="ortho", oshape=None):
    x = np.asarray(x).astype(np.complex128)
    if oshape is not None:
        x = center_resize(x, tuple(oshape))
    if axes is None:
        axes = range(x.ndim)
    axes = sorted(set(a % x.ndim for a in axes))
    for a in axes:
        F = dft_matrix(x.shape[a], center, inverse, norm)
        x = np.moveaxis(np.tensordot(F, x, axes=([1], [a])), 0, a)
    return x
