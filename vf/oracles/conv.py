"""Explicit definition of multi-channel strided convolution (signal-processing
definition): full[b, co, p] = sum_ci sum_k data[b, ci, p - k] filt[co, ci, k];
valid = the window where the smaller operand lies entirely inside the larger one
(either may be the larger, in every axis); then every s-th sample."""
import itertools

import numpy as np


def convolve(data, filt, mode, strides, multi_channel):
    D = filt.ndim - 2 * bool(multi_channel)
    m = data.shape[-D:]
    n = filt.shape[-D:]
    if multi_channel:
        b = data.shape[:-D - 1]
        ci = data.shape[-D - 1]
        co = filt.shape[0]
        assert filt.shape[1] == ci
    else:
        b = data.shape[:-D]
        ci = co = 1
    B = int(np.prod(b)) if b else 1
    d = data.reshape((B, ci) + tuple(m))
    f = filt.reshape((co, ci) + tuple(n))
    L = [a + c - 1 for a, c in zip(m, n)]
    dtype = np.result_type(data.dtype, filt.dtype, np.float64)
    full = np.zeros((B, co) + tuple(L), dtype)
    for k in itertools.product(*[range(c) for c in n]):
        for j in itertools.product(*[range(a) for a in m]):
            p = tuple(jj + kk for jj, kk in zip(j, k))
            # all batches / channels at once
            contrib = np.einsum("bi,oi->bo", d[(slice(None), slice(None)) + j],
                                f[(slice(None), slice(None)) + k])
            full[(slice(None), slice(None)) + p] += contrib
    if mode == "full":
        out = full
    else:
        ge = all(a >= c for a, c in zip(m, n))
        le = all(a <= c for a, c in zip(m, n))
        if not (ge or le):
            raise ValueError("valid mode undefined: neither operand contains the other")
        sl = tuple(slice(min(a, c) - 1, max(a, c)) for a, c in zip(m, n))
        out = full[(slice(None), slice(None)) + sl]
    s = strides or [1] * D
    out = out[(slice(None), slice(None)) + tuple(slice(None, None, ss) for ss in s)]
    p = out.shape[2:]
    if multi_channel:
        return out.reshape(tuple(b) + (co,) + tuple(p))
    return out.reshape(tuple(b) + tuple(p))


def convolve_shift_add(data, filt, mode, strides, multi_channel):
    """The same definition for operands of realistic size: one shifted, scaled copy of the
    data per filter tap (exact for integer operands; cost = taps x data size)."""
    D = filt.ndim - 2 * bool(multi_channel)
    m = data.shape[-D:]
    n = filt.shape[-D:]
    if multi_channel:
        b = data.shape[:-D - 1]
        ci = data.shape[-D - 1]
        co = filt.shape[0]
    else:
        b = data.shape[:-D]
        ci = co = 1
    B = int(np.prod(b)) if b else 1
    dtype = np.result_type(data.dtype, filt.dtype)
    if dtype.kind in "iu":
        dtype = np.dtype(np.int64)
    elif dtype.kind == "f":
        dtype = np.dtype(np.float64)
    else:
        dtype = np.dtype(np.complex128)
    d = np.ascontiguousarray(data).reshape((B, 1, ci) + tuple(m)).astype(dtype)
    f = np.ascontiguousarray(filt).reshape((co, ci) + tuple(n)).astype(dtype)
    L = [a + c - 1 for a, c in zip(m, n)]
    full = np.zeros((B, co) + tuple(L), dtype)
    for k in itertools.product(*[range(c) for c in n]):
        sl = tuple(slice(kk, kk + a) for kk, a in zip(k, m))
        w = f[(slice(None), slice(None)) + k]                        # [co, ci]
        full[(slice(None), slice(None)) + sl] += np.sum(
            d * w.reshape((1, co, ci) + (1,) * D), axis=2)
    if mode == "full":
        out = full
    else:
        ge = all(a >= c for a, c in zip(m, n))
        le = all(a <= c for a, c in zip(m, n))
        if not (ge or le):
            raise ValueError("valid mode undefined: neither operand contains the other")
        sl = tuple(slice(min(a, c) - 1, max(a, c)) for a, c in zip(m, n))
        out = full[(slice(None), slice(None)) + sl]
    s = strides or [1] * D
    out = out[(slice(None), slice(None)) + tuple(slice(None, None, ss) for ss in s)]
    p = out.shape[2:]
    if multi_channel:
        return out.reshape(tuple(b) + (co,) + tuple(p))
    return out.reshape(tuple(b) + tuple(p))
