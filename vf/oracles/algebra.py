"""Independent statement of the operator algebra: evaluates an operator-tree
*description* with numpy only (np.split / np.concatenate define "along the
requested axis"), using the real operator only at the leaves."""
import numpy as np


def _prod(s):
    p = 1
    for v in s:
        p *= int(v)
    return p


class Spec:
    def __init__(self, build_leaf, scalar_value):
        self.build_leaf = build_leaf
        self.scalar_value = scalar_value
        self.cache = {}

    def leaf(self, d):
        k = id(d)
        if k not in self.cache:
            self.cache[k] = self.build_leaf(d)
        return self.cache[k]

    # ---- forward -------------------------------------------------------
    def apply(self, d, x):
        op = d["op"]
        if op == "Compose":
            for p in d["parts"][::-1]:
                x = self.apply(p, x)
            return x
        if op == "Add":
            return sum(self.apply(p, x) for p in d["parts"])
        if op == "Sub":
            return self.apply(d["parts"][0], x) - self.apply(d["parts"][1], x)
        if op == "Neg":
            return -self.apply(d["A"], x)
        if op in ("ScaleL", "ScaleR"):
            return self.scalar_value(d["a"]) * self.apply(d["A"], x)
        if op == "Conj":
            return np.conj(self.apply(d["A"], np.conj(x)))
        if op == "H":
            return self.adjoint(d["A"], x)
        if op == "N":
            return self.adjoint(d["A"], self.apply(d["A"], x))
        if op == "Hstack":
            xs = self._split(x, [p["ishape"] for p in d["parts"]], d["axis"])
            return sum(self.apply(p, xi) for p, xi in zip(d["parts"], xs))
        if op == "Vstack":
            return self._cat([self.apply(p, x) for p in d["parts"]], d["axis"])
        if op == "Diag":
            xs = self._split(x, [p["ishape"] for p in d["parts"]], d["iaxis"])
            return self._cat([self.apply(p, xi) for p, xi in zip(d["parts"], xs)],
                             d["oaxis"])
        return self.leaf(d)(x)

    # ---- adjoint -------------------------------------------------------
    def adjoint(self, d, y):
        op = d["op"]
        if op == "Compose":
            for p in d["parts"]:
                y = self.adjoint(p, y)
            return y
        if op == "Add":
            return sum(self.adjoint(p, y) for p in d["parts"])
        if op == "Sub":
            return self.adjoint(d["parts"][0], y) - self.adjoint(d["parts"][1], y)
        if op == "Neg":
            return -self.adjoint(d["A"], y)
        if op in ("ScaleL", "ScaleR"):
            return np.conj(self.scalar_value(d["a"])) * self.adjoint(d["A"], y)
        if op == "Conj":
            return np.conj(self.adjoint(d["A"], np.conj(y)))
        if op == "H":
            return self.apply(d["A"], y)
        if op == "N":
            return self.adjoint(d["A"], self.apply(d["A"], y))
        if op == "Hstack":
            return self._cat([self.adjoint(p, y) for p in d["parts"]], d["axis"])
        if op == "Vstack":
            ys = self._split(y, [p["oshape"] for p in d["parts"]], d["axis"])
            return sum(self.adjoint(p, yi) for p, yi in zip(d["parts"], ys))
        if op == "Diag":
            ys = self._split(y, [p["oshape"] for p in d["parts"]], d["oaxis"])
            return self._cat([self.adjoint(p, yi) for p, yi in zip(d["parts"], ys)],
                             d["iaxis"])
        return self.leaf(d).H(y)

    @staticmethod
    def _split(x, shapes, axis):
        if axis is None:
            sizes = [_prod(s) for s in shapes]
            parts = np.split(np.asarray(x).ravel(), np.cumsum(sizes)[:-1])
            return [p.reshape(s) for p, s in zip(parts, shapes)]
        ext = [s[axis] for s in shapes]
        return np.split(x, np.cumsum(ext)[:-1], axis=axis)

    @staticmethod
    def _cat(ys, axis):
        if axis is None:
            return np.concatenate([np.asarray(y).ravel() for y in ys])
        return np.concatenate(ys, axis=axis)
