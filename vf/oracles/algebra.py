"""Independent statement of the operator algebra: evaluates an operator-tree
*description* with numpy only (np.split / np.concatenate define "along the
requested axis"), using the real operator only at the leaves."""
import numpy as np


def _prod(s):
    p = 1
    for v in s:
        p *= int(v)
    return p


EPS = 1e-16


def _n(a):
    return float(np.linalg.norm(np.asarray(a).ravel()))


class Spec:
    """apply()/adjoint() evaluate the description; noise()/noise_adjoint() run a first-order
    model of how float64 rounding noise propagates through it (each leaf amplifies incoming
    noise by its gain on a random probe - the RMS gain, x3 - and adds EPS*||output||).  The
    model gives the absolute round-off level of the tree's output, which is what a relative
    tolerance must not fall below when parts cancel or a late stage has a large gain."""

    def __init__(self, build_leaf, scalar_value):
        self.build_leaf = build_leaf
        self.scalar_value = scalar_value
        self.cache = {}
        self.gains = {}

    def leaf(self, d):
        k = id(d)
        if k not in self.cache:
            self.cache[k] = self.build_leaf(d)
        return self.cache[k]

    # ---- forward -------------------------------------------------------
    def apply(self, d, x):
        op = d["op"]
        if op == "Compose":
            for p in d["parts"][::-1]:
                x = self.apply(p, x)
            return x
        if op == "Add":
            return sum(self.apply(p, x) for p in d["parts"])
        if op == "Sub":
            return self.apply(d["parts"][0], x) - self.apply(d["parts"][1], x)
        if op == "Neg":
            return -self.apply(d["A"], x)
        if op in ("ScaleL", "ScaleR"):
            return self.scalar_value(d["a"]) * self.apply(d["A"], x)
        if op == "Conj":
            return np.conj(self.apply(d["A"], np.conj(x)))
        if op == "H":
            return self.adjoint(d["A"], x)
        if op == "N":
            return self.adjoint(d["A"], self.apply(d["A"], x))
        if op == "Hstack":
            xs = self._split(x, [p["ishape"] for p in d["parts"]], d["axis"])
            return sum(self.apply(p, xi) for p, xi in zip(d["parts"], xs))
        if op == "Vstack":
            return self._cat([self.apply(p, x) for p in d["parts"]], d["axis"])
        if op == "Diag":
            xs = self._split(x, [p["ishape"] for p in d["parts"]], d["iaxis"])
            return self._cat([self.apply(p, xi) for p, xi in zip(d["parts"], xs)],
                             d["oaxis"])
        return self.leaf(d).apply(np.asarray(x))

    # ---- adjoint -------------------------------------------------------
    def adjoint(self, d, y):
        op = d["op"]
        if op == "Compose":
            for p in d["parts"]:
                y = self.adjoint(p, y)
            return y
        if op == "Add":
            return sum(self.adjoint(p, y) for p in d["parts"])
        if op == "Sub":
            return self.adjoint(d["parts"][0], y) - self.adjoint(d["parts"][1], y)
        if op == "Neg":
            return -self.adjoint(d["A"], y)
        if op in ("ScaleL", "ScaleR"):
            return np.conj(self.scalar_value(d["a"])) * self.adjoint(d["A"], y)
        if op == "Conj":
            return np.conj(self.adjoint(d["A"], np.conj(y)))
        if op == "H":
            return self.apply(d["A"], y)
        if op == "N":
            return self.adjoint(d["A"], self.apply(d["A"], y))
        if op == "Hstack":
            return self._cat([self.adjoint(p, y) for p in d["parts"]], d["axis"])
        if op == "Vstack":
            ys = self._split(y, [p["oshape"] for p in d["parts"]], d["axis"])
            return sum(self.adjoint(p, yi) for p, yi in zip(d["parts"], ys))
        if op == "Diag":
            ys = self._split(y, [p["oshape"] for p in d["parts"]], d["oaxis"])
            return self._cat([self.adjoint(p, yi) for p, yi in zip(d["parts"], ys)],
                             d["iaxis"])
        return self.leaf(d).H.apply(np.asarray(y))

    @staticmethod
    def _split(x, shapes, axis):
        if axis is None:
            sizes = [_prod(s) for s in shapes]
            parts = np.split(np.asarray(x).ravel(), np.cumsum(sizes)[:-1])
            return [p.reshape(s) for p, s in zip(parts, shapes)]
        ext = [s[axis] for s in shapes]
        return np.split(x, np.cumsum(ext)[:-1], axis=axis)

    @staticmethod
    def _cat(ys, axis):
        if axis is None:
            return np.concatenate([np.asarray(y).ravel() for y in ys])
        return np.concatenate(ys, axis=axis)


    # ---- rounding-noise model ------------------------------------------------
    def _gain(self, d, adjoint):
        k = (id(d), adjoint)
        if k not in self.gains:
            L = self.leaf(d)
            op = L.H if adjoint else L
            rng = np.random.default_rng(24680)
            shp = tuple(op.ishape)
            p = rng.standard_normal(shp) + 1j * rng.standard_normal(shp)
            npn = _n(p)
            try:
                g = 3.0 * _n(op.apply(np.asarray(p))) / npn if npn > 0 else 1.0
            except Exception:
                g = 1.0
            self.gains[k] = max(g, 0.0)
        return self.gains[k]

    def noise(self, d, x, nx=0.0, adjoint=False):
        """Returns (value, absolute noise level) of d (or its adjoint) applied to x."""
        op = d["op"]
        fwd = not adjoint
        if op == "Compose":
            parts = d["parts"][::-1] if fwd else d["parts"]
            for p in parts:
                x, nx = self.noise(p, x, nx, adjoint)
            return x, nx
        if op in ("Add", "Sub"):
            tot, nt = 0, 0.0
            for i, p in enumerate(d["parts"]):
                y, ny = self.noise(p, x, nx, adjoint)
                tot = tot + (-y if (op == "Sub" and i == 1) else y)
                nt += ny + EPS * _n(y)
            return tot, nt
        if op == "Neg":
            y, ny = self.noise(d["A"], x, nx, adjoint)
            return -y, ny
        if op in ("ScaleL", "ScaleR"):
            a = self.scalar_value(d["a"])
            a = np.conj(a) if adjoint else a
            y, ny = self.noise(d["A"], x, nx, adjoint)
            return a * y, abs(a) * ny + EPS * abs(a) * _n(y)
        if op == "Conj":
            y, ny = self.noise(d["A"], np.conj(x), nx, adjoint)
            return np.conj(y), ny
        if op == "H":
            return self.noise(d["A"], x, nx, not adjoint)
        if op == "N":
            y, ny = self.noise(d["A"], x, nx, False)
            return self.noise(d["A"], y, ny, True)
        if op in ("Hstack", "Vstack", "Diag"):
            split_in = (op == "Hstack" and fwd) or (op == "Vstack" and adjoint) or op == "Diag"
            cat_out = (op == "Vstack" and fwd) or (op == "Hstack" and adjoint) or op == "Diag"
            if op == "Diag":
                ain, aout = (d["iaxis"], d["oaxis"]) if fwd else (d["oaxis"], d["iaxis"])
            else:
                ain = aout = d["axis"]
            key_in = "ishape" if fwd else "oshape"
            if split_in:
                xs = self._split(x, [p[key_in] for p in d["parts"]], ain)
            else:
                xs = [x] * len(d["parts"])
            ys, nt = [], 0.0
            for p, xi in zip(d["parts"], xs):
                y, ny = self.noise(p, xi, nx, adjoint)
                ys.append(y)
                nt += ny
            if cat_out:
                return self._cat(ys, aout), nt
            tot = sum(ys)
            return tot, nt + EPS * sum(_n(y) for y in ys)
        L = self.leaf(d)
        y = (L.H if adjoint else L).apply(np.asarray(x))
        return y, self._gain(d, adjoint) * nx + 4 * EPS * (_n(y) + _n(x) * self._gain(
            d, adjoint) / 3.0)
