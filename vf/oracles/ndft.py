"""Explicit non-uniform DFT matrix: E[j, n] = N^(-1/2) exp(-2 pi i sum_d k_{j,d} (n_d - N_d//2) / N_d)."""
import numpy as np


def ndft_matrix(coord, grid):
    coord = np.asarray(coord, float).reshape(-1, len(grid))
    idx = np.indices(grid).reshape(len(grid), -1).astype(float)       # [nd, N]
    ph = np.zeros((coord.shape[0], idx.shape[1]))
    for d, n in enumerate(grid):
        ph += np.outer(coord[:, d], (idx[d] - n // 2) / n)
    return np.exp(-2j * np.pi * ph) / np.sqrt(np.prod(grid))


def ndft(x, coord, nd):
    grid = x.shape[-nd:]
    E = ndft_matrix(coord, grid)
    xb = x.reshape(-1, int(np.prod(grid))).astype(np.complex128)
    y = xb @ E.T
    return y.reshape(x.shape[:-nd] + coord.shape[:-1])
