"""Explicit non-uniform DFT matrix: E[j, n] = N^(-1/2) exp(-2 pi i sum_d k_{j,d} (n_d - N_d//2) / N_d)."""
import numpy as np


def ndft_matrix(coord, grid):
    coord = np.asarray(coord, float).reshape(-1, len(grid))
    idx = np.indices(grid).reshape(len(grid), -1).astype(float)       # [nd, N]
    ph = np.zeros((coord.shape[0], idx.shape[1]))
    for d, n in enumerate(grid):
        ph += np.outer(coord[:, d], (idx[d] - n // 2) / n)
    return np.exp(-2j * np.pi * ph) / np.sqrt(np.prod(grid))


def ndft(x, coord, nd):
    grid = x.shape[-nd:]
    E = ndft_matrix(coord, grid)
    xb = x.reshape(-1, int(np.prod(grid))).astype(np.complex128)
    y = xb @ E.T
    return y.reshape(x.shape[:-nd] + coord.shape[:-1])


def ndft_separable(x, coord, nd):
    """The same transform without the matrix, for problems of realistic size: per point the
    kernel exp(-2 pi i k.(n - N//2)/N) is a product of one vector per axis, contracted axis by
    axis (cost: one pass over x per point; memory: one copy of x)."""
    grid = x.shape[-nd:]
    coord = np.asarray(coord, float).reshape(-1, nd)
    xb = np.asarray(x).astype(np.complex128, copy=False)
    out = np.zeros(x.shape[:-nd] + (coord.shape[0],), np.complex128)
    for j, k in enumerate(coord):
        t = xb
        for d in range(nd - 1, -1, -1):
            n = grid[d]
            t = t @ np.exp(-2j * np.pi * k[d] * (np.arange(n) - n // 2) / n)
        out[..., j] = t
    return out / np.sqrt(np.prod(grid))


def ndft_adjoint_at(d, coord, grid, voxels):
    """Exact adjoint sum_j d[..., j] conj(E[j, n]) at the listed voxels n (rows of indices)."""
    coord = np.asarray(coord, float).reshape(-1, len(grid))
    vox = np.asarray(voxels, float).reshape(-1, len(grid))
    ph = np.zeros((vox.shape[0], coord.shape[0]))
    for a, n in enumerate(grid):
        ph += np.outer((vox[:, a] - n // 2) / n, coord[:, a])
    EH = np.exp(2j * np.pi * ph) / np.sqrt(np.prod(grid))            # [V, M]
    db = np.asarray(d).reshape(d.shape[:-1] + (-1,)).astype(np.complex128)
    return db @ EH.T                                                  # [..., V]
