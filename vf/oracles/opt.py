"""Independent dense reference solvers with optimality certificates (numpy only).

solve_composite(M, y, g): minimise 0.5*||M x - y||^2 + g(x),  g in
   ("none",), ("l2", lam), ("l1", lam), ("box", lo, hi), optionally + (mu/2)||x - z||^2.
Returns (x, cert) where cert is the prox-gradient fixed-point residual
   ||x - prox_g(x - grad f(x))|| / max(1, ||x||)   (zero iff x is a minimiser).
"""
import numpy as np


def prox_g(g, t, v):
    k = g[0]
    if k == "none":
        return v
    if k == "l2":
        return v / (1 + t * g[1])
    if k == "l1":
        a = np.abs(v)
        return np.where(a > 0, v / np.maximum(a, 1e-300), 0) * np.maximum(a - t * g[1], 0)
    if k == "box":
        return np.minimum(np.maximum(v.real, g[1]), g[2]).astype(v.dtype)
    raise ValueError(k)


def g_value(g, x):
    k = g[0]
    if k == "none":
        return 0.0
    if k == "l2":
        return g[1] / 2 * float(np.sum(np.abs(x) ** 2))
    if k == "l1":
        return g[1] * float(np.sum(np.abs(x)))
    if k == "box":
        ok = np.all(x.real >= np.asarray(g[1]) - 1e-12) and np.all(x.real <= np.asarray(g[2]) + 1e-12)
        return 0.0 if ok else np.inf
    raise ValueError(k)


def objective(M, y, g, x, mu=0.0, z=None):
    r = M @ x - y
    f = 0.5 * float(np.real(np.vdot(r, r)))
    if mu:
        d = x - (0 if z is None else z)
        f += mu / 2 * float(np.real(np.vdot(d, d)))
    return f + g_value(g, x)


def certificate(M, y, g, x, mu=0.0, z=None):
    grad = M.conj().T @ (M @ x - y)
    if mu:
        grad = grad + mu * (x - (0 if z is None else z))
    return float(np.linalg.norm(x - prox_g(g, 1.0, x - grad)) / max(1.0, np.linalg.norm(x)))


def solve_composite(M, y, g, mu=0.0, z=None, iters=60000):
    n = M.shape[1]
    H = M.conj().T @ M + mu * np.eye(n)
    rhs = M.conj().T @ y + (mu * z if (mu and z is not None) else 0)
    k = g[0]
    if k == "none":
        x = np.linalg.lstsq(H, rhs, rcond=None)[0]
        return x, certificate(M, y, g, x, mu, z)
    if k == "l2":
        x = np.linalg.solve(H + g[1] * np.eye(n), rhs)
        return x, certificate(M, y, g, x, mu, z)
    L = float(np.linalg.eigvalsh(H)[-1])
    x = np.zeros(n, dtype=np.result_type(M.dtype, y.dtype))
    zz = x.copy()
    t = 1.0
    best = None
    for it in range(iters):
        grad = H @ zz - rhs
        xn = prox_g(g, 1.0 / L, zz - grad / L)
        if np.real(np.vdot(zz - xn, xn - x)) > 0:       # adaptive restart
            t = 1.0
            zz = xn.copy()
        else:
            tn = (1 + np.sqrt(1 + 4 * t * t)) / 2
            zz = xn + ((t - 1) / tn) * (xn - x)
            t = tn
        x = xn
        if it % 200 == 199:
            c = certificate(M, y, g, x, mu, z)
            if c <= 1e-13:
                break
    # active-set polish (exact linear solve on the identified free set) for real data
    if not np.iscomplexobj(x):
        if k == "l1":
            S = np.abs(x) > 1e-10
            if S.any():
                xs = np.zeros_like(x)
                try:
                    xs[S] = np.linalg.solve(H[np.ix_(S, S)], rhs[S] - g[1] * np.sign(x[S]))
                    if certificate(M, y, g, xs, mu, z) < certificate(M, y, g, x, mu, z):
                        x = xs
                except np.linalg.LinAlgError:
                    pass
        elif k == "box":
            lo = np.broadcast_to(np.asarray(g[1], float), x.shape)
            hi = np.broadcast_to(np.asarray(g[2], float), x.shape)
            atlo, athi = x <= lo + 1e-10, x >= hi - 1e-10
            F = ~(atlo | athi)
            xs = np.where(atlo, lo, np.where(athi, hi, x)).astype(float)
            if F.any():
                try:
                    fixed = ~F
                    xs[F] = np.linalg.solve(H[np.ix_(F, F)],
                                            rhs[F] - H[np.ix_(F, fixed)] @ xs[fixed])
                    if certificate(M, y, g, xs, mu, z) < certificate(M, y, g, x, mu, z):
                        x = xs
                except np.linalg.LinAlgError:
                    pass
    return x, certificate(M, y, g, x, mu, z)


def gstar_project(g, u):
    """Project a dual candidate onto dom g* and return (u_feasible, g*(u_feasible))."""
    k = g[0]
    if k == "none":                      # g = 0  ->  g* = indicator{0}
        return np.zeros_like(u), 0.0
    if k == "l1":
        a = np.abs(u)
        uf = np.where(a > g[1], u * (g[1] / np.maximum(a, 1e-300)), u)
        return uf, 0.0
    if k == "l2":
        return u, float(np.sum(np.abs(u) ** 2)) / (2 * g[1])
    raise ValueError(k)


def solve_with_G(Amat, y, Gm, g, lam=0.0, z=None, iters=40000, rho=1.0):
    """min_x 0.5||A x - y||^2 + lam/2 ||x - z||^2 + g(G x) by dense ADMM with a duality-gap
    certificate.  Returns (x, primal value, dual lower bound)."""
    n = Amat.shape[1]
    H = Amat.conj().T @ Amat + lam * np.eye(n)
    c = Amat.conj().T @ y + (lam * z if (lam and z is not None) else 0)
    const = 0.5 * float(np.real(np.vdot(y, y)))
    if lam and z is not None:
        const += lam / 2 * float(np.real(np.vdot(z, z)))
    Hinv = np.linalg.inv(H)
    K = np.linalg.inv(H + rho * Gm.conj().T @ Gm)
    dt = np.result_type(Amat.dtype, y.dtype, Gm.dtype)
    x = np.zeros(n, dt)
    v = np.zeros(Gm.shape[0], dt)
    w = np.zeros(Gm.shape[0], dt)

    def primal(xx):
        return 0.5 * float(np.real(np.vdot(xx, H @ xx))) - float(np.real(np.vdot(c, xx))) \
            + const + g_value(g, Gm @ xx)

    def dual(u):
        uf, gs = gstar_project(g, u)
        q = c - Gm.conj().T @ uf
        return -0.5 * float(np.real(np.vdot(q, Hinv @ q))) + const - gs

    best = (None, np.inf, -np.inf)
    for it in range(iters):
        x = K @ (c + rho * Gm.conj().T @ (v - w))
        Gx = Gm @ x
        v = prox_g(g, 1.0 / rho, Gx + w)
        w = w + Gx - v
        if it % 50 == 49 or it == iters - 1:
            p, d = primal(x), dual(rho * w)
            if p < best[1]:
                best = (x.copy(), p, best[2])
            if d > best[2]:
                best = (best[0], best[1], d)
            if best[1] - best[2] <= 1e-11 * max(1.0, abs(best[1])):
                break
    return best
