"""C19 - Bloch simulators are unitary and invert the SLR pulse design.

Deciding monitor: postconditions / reference relations on the Cayley-Klein parameters the
real simulators return (abrm, abrm_nd, abrm_hp, abrm_ptx, optcont.blochsim):
  U1 | |a|^2 + |b|^2 - 1 | <= 1e-12 (1 + Nt) at every position;
  U2 zero RF: b = 0 exactly and |a| = 1; a = 1 wherever the accumulated gradient phase is
     zero (with a gradient on, the "identity rotation" of a zero pulse is a pure z-rotation:
     abrm always plays g = 2 pi / N, so a = 1 is only demanded at x = 0);
  U3 composition: each simulator returns the first column of an SU(2) matrix (the per-step
     U(2) phase of abrm_hp / blochsim is removed by their final half-phase factor; abrm_ptx
     returns b = -conj(state_b)); simulating p1 followed by p2 equals Q(p2) Q(p1) e1, to
     1e-11 (abrm: positions rescaled by N_i / N because its gradient is 2 pi / N);
  S4 inverse SLR: for a beta polynomial b with max_w |B(w)| <= 0.98 (16x oversampled grid),
     rf = b2rf(b) simulated with abrm_hp and blochsim reproduces |B(2 pi x / n)| at 256
     positions to 1e-5.
"""
import numpy as np

from vf.common import Plan, crandn, held, violated, inconclusive, rng_for, nrm, pick

SPEC = {
    "deciding_monitors": ["fn:abrm", "fn:abrm_nd", "fn:abrm_hp", "fn:abrm_ptx", "fn:blochsim", "fn:b2rf", "fn:b2a"],
    "rule": ("cases = (simulator, RF length 1..256, amplitude class small..>pi per sample, "
             "gradient class, 1-3 spatial dims, 1-20 positions; ptx: 1-3 coils, 1x1..3x3 "
             "grids, with/without fmap and sens) and (beta polynomial: every ptype x ftype of "
             "dzrf with n in 16..128, tb 2..8, or random complex Gaussian/windowed/sparse "
             "scaled to max|B| in [0.1, 0.98]); distinct = those classes; non-trivial = RF "
             "with at least one non-zero sample or a zero-pulse identity case"),
    "boundscheck": {"quick": False, "thorough": False},
    "case_timeout": 180.0,
    "assumptions": ["beta polynomials with max|B| > 0.98 are rescaled to 0.97 (the statement "
                    "requires the response to stay below one)"],
}

SIMS = ["abrm", "abrm_nd", "abrm_hp", "abrm_ptx", "blochsim"]
PTYPES = ["st", "ex", "se", "inv", "sat"]
FTYPES = ["ms", "pm", "min", "max", "ls"]


def plan(tier, seed):
    P = Plan(19, seed)
    quick = tier == "quick"
    rng = P.rng("sim")
    for sim in SIMS:
        for i in range(50 if quick else 700):
            P.add("sim", sim=sim, nt=int(pick(rng, [1, 2, 3, 8, 32, 100, 256])),
                  amp=pick(rng, ["small", "mid", "large", "zero"]),
                  nd=int(rng.integers(1, 4)), npos=int(rng.integers(1, 21)),
                  sseed=int(rng.integers(1 << 30)))
    # profiles of realistic size: tens of thousands of positions times hundreds of samples
    # (more than 2**20 position-sample pairs)
    for i in range(5 if quick else 40):
        sim = SIMS[i % len(SIMS)]
        if sim == "abrm_ptx":
            sim = "abrm_hp"
        P.add("sim", sim=sim, nt=int(pick(rng, [256, 129, 200])),
              amp=pick(rng, ["small", "mid", "large"]), nd=int(rng.integers(1, 3)),
              npos=int(pick(rng, [16384, 8192 + 3, 12000])), sseed=int(rng.integers(1 << 30)),
              timeout=900)
    for pt in PTYPES:
        for ft in FTYPES:
            for i in range(1 if quick else 8):
                P.add("slr", kind="dzrf", ptype=pt, ftype=ft,
                      n=int(pick(rng, [16, 32, 64, 128])), tb=int(pick(rng, [2, 4, 6, 8])),
                      sseed=int(rng.integers(1 << 30)))
    for i in range(40 if quick else 600):
        P.add("slr", kind=pick(rng, ["gauss", "window", "sparse"]),
              n=int(pick(rng, [4, 8, 16, 33, 64, 100])),
              peak=float(rng.uniform(0.1, 0.98)) if i % 3 else float(10 ** rng.uniform(-8, -1)),
              sseed=int(rng.integers(1 << 30)))
    return P.cases


def make_rf(rng, nt, amp):
    if amp == "zero":
        return np.zeros(nt, np.complex128)
    s = {"small": 1e-2, "mid": 0.5, "large": 4.0}[amp]
    return crandn(rng, [nt]) * s


_MUTATED = []


def simulate(sim, rf, x, g, extra=None):
    """Returns (a, b) as flat complex arrays; records in _MUTATED any argument array that the
    simulator changed (a later simulation from the same arrays would see other data)."""
    import sigpy.mri.rf as rfm
    args = {"rf": rf, "x": x, "g": g}
    if isinstance(extra, dict):
        args.update({k_: v_ for k_, v_ in extra.items() if isinstance(v_, np.ndarray)})
    keep = {k_: v_.copy() for k_, v_ in args.items() if isinstance(v_, np.ndarray)}
    try:
        return _simulate(sim, rf, x, g, extra)
    finally:
        for k_, v0 in keep.items():
            if not np.array_equal(args[k_], v0, equal_nan=True):
                _MUTATED.append("%s: argument %r" % (sim, k_))
                args[k_][...] = v0       # undo, so that the remaining checks see the real data


def _simulate(sim, rf, x, g, extra=None):
    import sigpy.mri.rf as rfm
    if sim == "abrm":
        a, b = rfm.sim.abrm(rf, x)
    elif sim == "abrm_nd":
        a, b = rfm.sim.abrm_nd(rf, x, g)
    elif sim == "abrm_hp":
        a, b = rfm.sim.abrm_hp(rf, g, x, extra or 0)
    elif sim == "blochsim":
        a, b = rfm.optcont.blochsim(rf, x, g)
    elif sim == "abrm_ptx":
        a, b, m, mz = rfm.sim.abrm_ptx(rf, x, g, extra["dt"], fmap=extra.get("fmap"),
                                       sens=extra.get("sens"))
    return np.asarray(a).ravel().astype(np.complex128), \
        np.asarray(b).ravel().astype(np.complex128)


def to_state(sim, a, b):
    """First column (s1, s2) of the SU(2) matrix the simulator's output stands for."""
    if sim == "abrm_ptx":
        return a, -np.conj(b)
    return a, b


def from_state(sim, s1, s2):
    if sim == "abrm_ptx":
        return s1, -np.conj(s2)
    return s1, s2


def compose(sim, ab1, ab2):
    p1, q1 = to_state(sim, *ab1)
    p2, q2 = to_state(sim, *ab2)
    # Q(p2) = [[p2, -conj(q2)], [q2, conj(p2)]]
    s1 = p2 * p1 - np.conj(q2) * q1
    s2 = q2 * p1 + np.conj(p2) * q1
    return from_state(sim, s1, s2)


def run_sim(case):
    del _MUTATED[:]
    r = _run_sim(case)
    if _MUTATED and r.get("verdict") != "violated":
        return violated(r.get("sig", "sim"), "a simulator modified an array passed to it (%s)" %
                        "; ".join(sorted(set(_MUTATED))[:3]), dict(case), mech="sim-mutates")
    return r


def _run_sim(case):
    rng = np.random.default_rng(case["sseed"])
    sim, nt, amp = case["sim"], case["nt"], case["amp"]
    sig = "|".join(map(str, ["sim", sim, "nt%d" % nt, amp, case["nd"]]))
    wit = dict(case)
    extra1 = extra2 = extra = None
    if sim == "abrm":
        x = rng.uniform(-nt, nt, case["npos"])
        if amp == "zero" and case["npos"] > 1:
            x[0] = 0.0
        rf = make_rf(rng, nt, amp)
        g = None
    elif sim in ("abrm_nd", "blochsim"):
        nd = case["nd"]
        x = rng.uniform(-4, 4, (case["npos"], nd))
        g = rng.standard_normal((nt, nd)) * 0.5
        rf = make_rf(rng, nt, amp)
        if sim == "blochsim" and nd == 1 and rng.random() < 0.5:
            x = x[:, 0]
            g = g[:, 0]
    elif sim == "abrm_hp":
        x = rng.uniform(-4, 4, case["npos"])
        g = rng.standard_normal(nt) * 0.5
        rf = make_rf(rng, nt, amp)
        extra = float(rng.standard_normal() * 0.1) if rng.random() < 0.4 else 0
    else:
        dim = int(rng.integers(1, 4))
        nc = int(rng.integers(1, 4))
        nd = 2
        x = rng.uniform(-0.1, 0.1, (dim * dim, nd))
        g = rng.standard_normal((nt, nd)) * 0.5
        dt = 4e-6
        s = {"zero": 0.0, "small": 1e-4, "mid": 1e-2, "large": 0.2}[amp]
        rf = crandn(rng, [nc, nt]) * s
        extra = {"dt": dt}
        if rng.random() < 0.5:
            extra["fmap"] = rng.standard_normal((dim, dim)) * 50
        if rng.random() < 0.5:
            extra["sens"] = crandn(rng, [nc, dim, dim])
    # degenerate samples: exact zeros in the RF (zero padding), in the gradient and in the
    # positions (iso-centre), i.e. time steps / places where the total field vanishes
    deg = rng.random()
    if deg < 0.4 and nt >= 2:
        z = rng.random(nt) < 0.4
        if sim == "abrm_ptx":
            rf = rf * (~z)[None, :]
        else:
            rf = rf * (~z)
        if g is not None and deg < 0.2:
            gz = rng.random(nt) < 0.5
            g = g * ((~gz)[:, None] if np.ndim(g) == 2 else (~gz))
    if g is not None and np.ndim(g) == 2 and g.shape[1] >= 2 and case["sseed"] % 4 == 1:
        # a gradient that is played on some axes only: an all-zero column (the first, or all
        # but the last) - e.g. a y-only or z-only gradient on a 2-D / 3-D grid
        g = np.array(g, copy=True)
        g[:, :int(rng.integers(1, g.shape[1]))] = 0.0
        sig += "|axis-off"
    if deg < 0.5:
        x = np.array(x, copy=True)
        x[0] = 0.0                       # first position exactly at the origin
        if sim == "abrm_ptx" and x.shape[0] >= 5:
            x[x.shape[0] // 2] = 0.0
        sig += "|degenerate"
    ptol = 1.0
    if g is not None and sim != "abrm_ptx" and case["sseed"] % 6 == 3 and nt >= 2:
        # a gradient plateau with a few ppm of droop / ripple (constant to five or six digits,
        # not exactly), seen from far away positions where those ppm are a visible phase: every
        # sample still counts with its own value
        g0 = np.asarray(g)[0] + 0.3
        g = g0 * (1 + 8e-6 * rng.uniform(-1, 1, np.shape(g)))
        x = np.asarray(x) * 600.0
        ptol = 1.0 + float(np.max(np.abs(x))) * float(np.max(np.abs(g))) * max(1, np.ndim(g))
        sig += "|near-constant-g"
    rfkind = case["sseed"] % 5
    utol = 1e-12
    if rfkind == 1 and sim != "abrm_ptx":
        rf = rf.astype(np.complex64)             # single-precision waveform
        utol = 1e-5
        sig += "|c64"
    elif rfkind == 2 and sim != "abrm_ptx":
        rf = np.ascontiguousarray(rf.real)       # purely real waveform (float64 array)
        sig += "|real"
    checks = 0
    obs = {}
    try:
        a, b = simulate(sim, rf, x, g, extra)
    except Exception as e:
        return violated(sig, "%s raised %s: %s" % (sim, type(e).__name__, str(e)[:200]), wit,
                        mech="raised:" + sim)
    if sim != "abrm_ptx" and case["sseed"] % 3 == 1 and np.ndim(rf) == 1:
        # the same pulse stored as an (Nt, 1) column vector (what scipy.io.loadmat returns):
        # the same rotation
        try:
            ac, bc = simulate(sim, rf.reshape(-1, 1), x, g, extra)
        except Exception as e:
            return violated(sig, "%s raised %s for a pulse stored as an (Nt, 1) column vector"
                            % (sim, type(e).__name__), wit, mech="column-rf:" + sim)
        ec = float(max(np.max(np.abs(ac - a)), np.max(np.abs(bc - b)))) if ac.shape == a.shape \
            else np.inf
        checks += 1
        if not ec <= max(1e-12, utol * 10):
            return violated(sig, "%s: the pulse as an (Nt, 1) column vector gives another "
                            "rotation than the same pulse as a 1-D array (max difference "
                            "%.3g)" % (sim, ec), wit, mech="column-rf:" + sim)
    npos = a.size
    if not (np.all(np.isfinite(a)) and np.all(np.isfinite(b))):
        return violated(sig, "%s returned non-finite Cayley-Klein parameters (NaN/inf at %d of "
                        "%d positions)" % (sim, int(np.sum(~np.isfinite(a) | ~np.isfinite(b))),
                                           a.size), wit, mech="nonfinite:" + sim)
    dev = float(np.max(np.abs(np.abs(a) ** 2 + np.abs(b) ** 2 - 1)))
    checks += 1
    obs["unitarity"] = dev
    if not dev <= utol * (1 + nt):
        return violated(sig, "%s: | |a|^2 + |b|^2 - 1 | = %.3g after %d samples" % (sim, dev, nt),
                        wit, mech="unitarity:" + sim, obs=obs)
    if amp == "zero":
        checks += 1
        if np.any(b != 0) or np.max(np.abs(np.abs(a) - 1)) > 1e-12:
            return violated(sig, "%s: zero pulse gives b != 0 or |a| != 1 (max|b| = %.3g)" % (
                sim, float(np.max(np.abs(b)))), wit, mech="zero-pulse:" + sim)
        if sim == "abrm" and case["npos"] > 1:
            if abs(a[0] - 1) > 1e-12:
                return violated(sig, "abrm: zero pulse at x = 0 gives a = %s, not 1" % a[0], wit,
                                mech="zero-pulse:" + sim)
    # positions are independent of each other: simulating the same waveform on the reversed
    # position list must give the reversed outputs (also catches anything remembered from the
    # previous call that depends on the positions)
    if npos >= 2:
        if sim == "abrm_ptx":
            ex2 = dict(extra)
            if "fmap" in ex2:
                ex2["fmap"] = ex2["fmap"].reshape(-1)[::-1].reshape(ex2["fmap"].shape)
            if "sens" in ex2:
                nc_ = ex2["sens"].shape[0]
                # abrm_ptx flattens sens as transpose(sens).reshape(dim*dim, nc)
                flat = np.transpose(ex2["sens"]).reshape(-1, nc_)[::-1]
                ex2["sens"] = np.transpose(flat.reshape(np.transpose(ex2["sens"]).shape))
            ar, br = simulate(sim, rf, x[::-1].copy(), g, ex2)
        else:
            ar, br = simulate(sim, rf, x[::-1].copy(), g, extra)
        e = float(max(np.max(np.abs(ar[::-1] - a)), np.max(np.abs(br[::-1] - b))))
        checks += 1
        obs["position_reversal"] = e
        if not e <= max(1e-12, utol) * ptol:
            return violated(sig, "%s: simulating the reversed position list does not give the "
                            "reversed result (max difference %.3g): positions are not treated "
                            "independently / something is remembered between calls" % (sim, e),
                            wit, mech="position-independence:" + sim, obs=obs)
    # spatial axes are interchangeable labels: permuting the columns of x and g together leaves
    # the result unchanged, and an axis on which no gradient is played can be dropped from both
    if sim in ("abrm_nd", "blochsim") and g is not None and np.ndim(g) == 2 and g.shape[1] >= 2:
        perm = rng.permutation(g.shape[1])
        ap, bp = simulate(sim, rf, np.ascontiguousarray(x[:, perm]),
                          np.ascontiguousarray(g[:, perm]), extra)
        e = float(max(np.max(np.abs(ap - a)), np.max(np.abs(bp - b))))
        checks += 1
        obs["axis_permutation"] = e
        if not e <= max(1e-11, utol * 10) * (1 + nt / 16) * ptol:
            return violated(sig, "%s: permuting the spatial axes of x and g together changes the "
                            "result by %.3g" % (sim, e), wit, mech="axis-permutation:" + sim,
                            obs=obs)
        keep = [d_ for d_ in range(g.shape[1]) if np.any(g[:, d_])]
        if 0 < len(keep) < g.shape[1]:
            ad, bd = simulate(sim, rf, np.ascontiguousarray(x[:, keep]),
                              np.ascontiguousarray(g[:, keep]), extra)
            e = float(max(np.max(np.abs(ad - a)), np.max(np.abs(bd - b))))
            checks += 1
            obs["unused_axis_dropped"] = e
            if not e <= max(1e-11, utol * 10) * (1 + nt / 16) * ptol:
                return violated(sig, "%s: dropping the spatial axes on which no gradient is "
                                "played changes the result by %.3g" % (sim, e), wit,
                                mech="unused-axis:" + sim, obs=obs)
    # composition
    if nt >= 2:
        k = int(rng.integers(1, nt))
        if sim == "abrm":
            ab1 = simulate(sim, rf[:k], x * k / nt, None)
            ab2 = simulate(sim, rf[k:], x * (nt - k) / nt, None)
        elif sim == "abrm_ptx":
            ab1 = simulate(sim, rf[:, :k], x, g[:k], extra)
            ab2 = simulate(sim, rf[:, k:], x, g[k:], extra)
        else:
            ab1 = simulate(sim, rf[:k], x, g[:k], extra)
            ab2 = simulate(sim, rf[k:], x, g[k:], extra)
        a12, b12 = compose(sim, ab1, ab2)
        e = float(max(np.max(np.abs(a12 - a)), np.max(np.abs(b12 - b))))
        checks += 1
        obs["composition"] = e
        if not e <= max(1e-11, utol * 10) * (1 + nt / 16) * ptol:
            return violated(sig, "%s: simulating the two halves and composing their rotations "
                            "differs from simulating the whole waveform by %.3g (split at %d "
                            "of %d)" % (sim, e, k, nt), wit, mech="composition:" + sim, obs=obs)
        # an RF gap (delay / rewinder lobe) with the gradient still on: the trailing part of
        # the waveform is exactly zero, so the second piece is an all-zero pulse whose rotation
        # is the pure gradient phase, not the identity
        rfz = np.array(rf, copy=True)
        if sim == "abrm_ptx":
            rfz[:, k:] = 0
            whole = simulate(sim, rfz, x, g, extra)
            gap = simulate(sim, rfz[:, k:], x, g[k:], extra)
        elif sim == "abrm":
            rfz[k:] = 0
            whole = simulate(sim, rfz, x, None)
            gap = simulate(sim, rfz[k:], x * (nt - k) / nt, None)
        else:
            rfz[k:] = 0
            whole = simulate(sim, rfz, x, g, extra)
            gap = simulate(sim, rfz[k:], x, g[k:], extra)
        ag, bg = compose(sim, ab1, gap)
        e = float(max(np.max(np.abs(ag - whole[0])), np.max(np.abs(bg - whole[1]))))
        checks += 1
        obs["composition_rf_gap"] = e
        if not e <= max(1e-11, utol * 10) * (1 + nt / 16) * ptol:
            return violated(sig, "%s: a pulse followed by an RF gap (zeros, gradient on) differs "
                            "from composing the pulse with the simulated gap by %.3g (gap of %d "
                            "samples)" % (sim, e, nt - k), wit, mech="composition-gap:" + sim,
                            obs=obs)
    if amp == "zero":
        # continuity: an all-zero waveform is the limit of a vanishing one
        tiny = 1e-30 if rf.dtype == np.complex64 else 1e-150
        at, bt = simulate(sim, rf + rf.dtype.type(tiny), x, g, extra)
        e = float(np.max(np.abs(at - a)))
        checks += 1
        obs["zero_limit"] = e
        if not e <= 1e-12 + (1e-6 if rf.dtype == np.complex64 else 0):
            return violated(sig, "%s: the all-zero pulse gives a rotation that differs by %.3g "
                            "from the one of a vanishing (1e-150) pulse" % (sim, e), wit,
                            mech="zero-limit:" + sim, obs=obs)
    return held(sig, obs, checks, True)


def beta_poly(case, rng):
    import sigpy.mri.rf as rfm
    slr = rfm.slr
    if case["kind"] == "dzrf":
        n, tb = case["n"], case["tb"]
        bsf, d1, d2 = slr.calc_ripples(case["ptype"], 0.01, 0.01)
        ft = case["ftype"]
        if ft == "ms":
            b = slr.msinc(n, tb / 4)
        elif ft == "pm":
            b = slr.dzlp(n, tb, d1, d2)
        elif ft == "min":
            b = slr.dzmp(n, tb, d1, d2)[::-1]
        elif ft == "max":
            b = slr.dzmp(n, tb, d1, d2)
        else:
            b = slr.dzls(n, tb, d1, d2)
        return np.asarray(bsf * b)
    n = case["n"]
    b = crandn(rng, [n])
    if case["kind"] == "window":
        b = b * np.hanning(n + 2)[1:-1]
    elif case["kind"] == "sparse":
        m = rng.random(n) < 0.3
        m[int(rng.integers(n))] = True
        b = b * m
    return b


def response(b, w):
    """B(w) = sum_j b_j exp(-i j w)."""
    j = np.arange(b.size)
    return np.exp(-1j * np.outer(w, j)) @ b


def run_slr(case):
    import sigpy.mri.rf as rfm
    rng = np.random.default_rng(case["sseed"])
    try:
        b = np.asarray(beta_poly(case, rng)).astype(np.complex128)
    except Exception as e:
        return inconclusive("filter design raised %s: %s" % (type(e).__name__, str(e)[:100]))
    n = b.size
    wfine = np.linspace(-np.pi, np.pi, 16 * n, endpoint=False)
    peak = float(np.max(np.abs(response(b, wfine))))
    target = case.get("peak")
    if case["kind"] != "dzrf":
        b = b * (target / peak)
    elif peak > 0.98:
        b = b * (0.97 / peak)
    peak = float(np.max(np.abs(response(b, wfine))))
    if case["kind"] == "dzrf":
        sig = "slr|dzrf|%s|%s" % (case["ptype"], case["ftype"])
    else:
        sig = "slr|%s|n%d|p%s" % (case["kind"], min(n, 64), round(peak, 1) if peak >= 0.05
                                  else "1e%d" % int(np.floor(np.log10(max(peak, 1e-300)))))
    wit = dict(case)
    b0 = b.copy()
    try:
        rf = rfm.slr.b2rf(b)
    except Exception as e:
        return violated(sig, "b2rf/b2a raised %s: %s" % (type(e).__name__, str(e)[:200]), wit,
                        mech="slr-raised")
    if not np.array_equal(b, b0):
        return violated(sig, "b2rf modified its argument", wit, mech="mutated")
    x = np.linspace(-n / 2, n / 2, 256, endpoint=False)
    w = 2 * np.pi * x / n
    Bw = np.abs(response(b, w))
    checks = 0
    obs = {"peak": peak}
    worst = 0.0
    for name in ("abrm_hp", "blochsim", "abrm_hp", "blochsim"):
        if checks >= 2:
            # second pass on another frequency grid of the same size (same gradient)
            x = np.linspace(-n / 6, n / 6, 256, endpoint=False) + 0.013
            w = 2 * np.pi * x / n
            Bw = np.abs(response(b, w))
        if name == "abrm_hp":
            _, bs = rfm.sim.abrm_hp(rf, np.full(n, 2 * np.pi / n), x)
        else:
            _, bs = rfm.optcont.blochsim(rf, x, np.full(n, 2 * np.pi / n))
        e = float(np.max(np.abs(np.abs(bs) - Bw)))
        checks += 1
        worst = max(worst, e)
        obs["roundtrip_" + name] = max(e, obs.get("roundtrip_" + name, 0.0))
        # relative to the size of the response (small-tip designs: |B| << 1), observed
        # on the unchanged tree: <= 3e-8 * max|B| at every scale
        if not e <= 1e-5 * min(1.0, peak):
            return violated(sig, "simulating b2rf(b) with %s does not reproduce |B|: max "
                            "deviation %.3g over 256 frequencies (max|B| = %.3g)" % (
                                name, e, peak), wit, mech="slr-roundtrip", obs=obs)
    return held(sig, obs, checks, True)


def run_case(case):
    return run_sim(case) if case["gen"] == "sim" else run_slr(case)
