"""C16 - SENSE operator equals the explicit multi-coil encoding; recons minimise it.

Deciding monitors:
 (op)    reference-model comparison of sigpy.mri.linop.Sense with the explicit encoding
         ref[c] = sqrt(w) * F(mps[c] * x), F = explicit centred DFT (1e-10) or exact NDFT
         (C06's guarded metric; bound = max(stated 3 %, separable worst-case bound of the
         default kernel in that dimension)); adjoint identity 1e-10; batching invariance:
         coil_batch_size = 1..num_coils gives the same forward and adjoint results as the
         unbatched operator to 1e-12 (nufft-to-nufft), with weights None / k-space shaped /
         per-coil shaped, also with time-segmentation parameters;
 (recon) SenseRecon vs the dense normal-equation solution (A^H A + lamda I)^-1 A^H y of the
         real (weighted) operator's dense matrix, every applicable solver, 1e-6 relative;
         consistent fully determined data reproduce the image; TotalVariationRecon and
         L1WaveletRecon (only when the wavelet operator is verified unitary: Haar on
         power-of-two extents) vs a certified optimum of their documented objective (dense
         ADMM with Fenchel duality gap <= 1e-9), objective gap <= 1e-5 relative.
"""
import numpy as np

from vf import lops
from vf.common import Plan, crandn, held, violated, inconclusive, rng_for, nrm, inner, pick
from vf.oracles import dft as ODFT
from vf.oracles import ndft as ONDFT
from vf.oracles import opt as OPT

SPEC = {
    "rule": ("cases = (image shape 2-D/3-D odd/even, coils 1..6, Cartesian / non-Cartesian "
             "[random, radial, out-of-range], weights none / k-space / per-coil, "
             "coil_batch_size 1..nc, tseg on/off) for the operator; (recon app, lamda, solver, "
             "sampling, batch size) for the reconstructions; distinct = those classes; "
             "non-trivial = every case"),
    "boundscheck": {"quick": False, "thorough": True},
    "case_timeout": 400.0,
    "deciding_monitors": ["Linop.apply", "in:complex64"],
    "assumptions": ["dense matrices of the real operator (<= 64 unknowns) define A for the "
                    "reconstruction references", "L1WaveletRecon only with a verified unitary W"],
}


def plan(tier, seed):
    P = Plan(16, seed)
    quick = tier == "quick"
    rng = P.rng("op")
    for i in range(160 if quick else 2500):
        nd = int(pick(rng, [2, 2, 3]))
        img = [int(rng.integers(2, 7 if nd == 2 else 5)) for _ in range(nd)]
        nc = int(rng.integers(1, 7))
        traj_ = pick(rng, ["cart", "cart", "random", "radial", "outside"])
        if nd == 3 and i % 4 == 1:
            # a stack of slices: 3-D image, 2-D trajectory shared by the slices; as many
            # coils as slices in half of these (shared weights then look like per-coil ones)
            traj_ = "stack"
            if i % 8 == 1:
                nc = img[0]
        P.add("op", img=img, nc=nc, traj=traj_,
              w=pick(rng, ["none", "kspace", "percoil", "scalar"]), M=int(rng.integers(16, 40)),
              tseg=bool(rng.random() < 0.15), oseed=int(rng.integers(1 << 30)))
    rng = P.rng("recon")
    for i in range(70 if quick else 900):
        app = pick(rng, ["sense", "sense", "sense-consistent", "tv", "l1wav"])
        nd = int(pick(rng, [2, 2, 3]))
        if app == "l1wav":
            img = [int(pick(rng, [2, 4])) for _ in range(nd)]
        else:
            img = [int(rng.integers(2, 5)) for _ in range(nd)]
        if int(np.prod(img)) > 48:
            img = img[:2]
        P.add("recon", app=app, img=img, nc=int(rng.integers(2, 5)),
              traj=pick(rng, ["cart", "cart-mask", "random"]),
              lam=(0.0 if app == "sense-consistent" else pick(rng, [0.0, 1e-2, 1.0]))
              if app.startswith("sense") else float(10 ** rng.uniform(-2, -0.5)),
              solver=pick(rng, [None, "ConjugateGradient", "GradientMethod",
                                "PrimalDualHybridGradient", "ADMM"]) if app.startswith("sense")
              else
              pick(rng, [None, "PrimalDualHybridGradient", "ADMM"]),
              batch=pick(rng, [None, None, 1, 2]),
              w=pick(rng, ["none", "none", "kspace", "scalar"]),
              rho=pick(rng, [None, None, 0.25, 4.0]), oseed=int(rng.integers(1 << 30)))
    # directed: every solver whose step size is estimated from the operator norm, with coil maps
    # of very small / large magnitude; and total-variation recon with lamda > 0 on unit-rss
    # maps (an encoding operator whose norm is small compared with that of the gradient)
    for i in range(16 if quick else 200):
        P.add("recon", app="sense" if i % 2 else "tv",
              img=[int(pick(rng, [2, 4])) for _ in range(2)], nc=int(rng.integers(2, 5)),
              traj=pick(rng, ["cart", "cart-mask"]), lam=float(10 ** rng.uniform(-1.5, -0.3)),
              solver=pick(rng, ["GradientMethod", "GradientMethod",
                                "PrimalDualHybridGradient"]) if i % 2
              else None, batch=None, w="none",
              msc=pick(rng, [1e-5, 1e-4, 1e3]) if i % 2 else None,
              oseed=int(rng.integers(1 << 30)) * 3)
    return P.cases


def make_coord(rng, traj, img, M):
    nd = len(img)
    g = np.asarray(img, float)
    if traj == "random":
        return (rng.random((M, nd)) - 0.5) * g
    if traj == "outside":
        return (rng.random((M, nd)) - 0.5) * g * 3
    # radial spokes through the centre
    ns = max(2, M // 8)
    t = np.linspace(-0.5, 0.5, 8, endpoint=False)
    out = []
    for s in range(ns):
        d = rng.standard_normal(nd)
        d /= np.linalg.norm(d)
        out.append(t[:, None] * d[None, :] * g.min())
    return np.concatenate(out, axis=0)


def dense(A):
    ish = tuple(A.ishape)
    n = int(np.prod(ish))
    cols = []
    for j in range(n):
        e = np.zeros(n, np.complex128)
        e[j] = 1
        cols.append(np.asarray(A(e.reshape(ish))).ravel())
    return np.stack(cols, axis=1)


def run_op(case):
    import sigpy as sp
    import sigpy.mri as mr
    from vf.workloads.c06 import sep_bound
    rng = np.random.default_rng(case["oseed"])
    img, nc = case["img"], case["nc"]
    nd = len(img)
    single = case["oseed"] % 6 == 0 and not case["tseg"]
    cdt = np.complex64 if single else np.complex128
    mps = crandn(rng, [nc] + img, cdt)
    x = crandn(rng, img, cdt)
    traj = case["traj"]
    tseg = None
    ndt = nd                       # number of transformed (trailing) image axes
    if traj == "cart":
        coord = None
        kshape = list(img)
    elif traj == "stack":
        ndt = nd - 1
        coord = np.ascontiguousarray(make_coord(rng, "random", img[1:], case["M"]))
        kshape = [img[0], coord.shape[0]]
    else:
        coord = np.ascontiguousarray(make_coord(rng, traj, img, case["M"]))
        kshape = [coord.shape[0]]
    if case["tseg"] and coord is not None and nd == 2 and img[0] == img[1]:
        b0 = np.abs(rng.standard_normal(img)) * 40
        tseg = {"b0": b0, "dt": 4e-6, "lseg": 2, "n_bins": 8}
    wk = case["w"]
    w = None
    if wk == "kspace":
        w = rng.random(kshape) + 0.1
    elif wk == "percoil":
        w = rng.random([nc] + kshape) + 0.1
    elif wk == "scalar":
        w = float(pick(rng, [0.25, 2.0, 9.0]))         # a float: one weight for every sample
    if not isinstance(w, np.ndarray):
        pass
    elif w is not None and case["oseed"] % 4 == 0:
        w = rng.integers(0, 5, size=w.shape)            # integer weights (acquisition counts)
        wk += "-int"
    elif w is not None and case["oseed"] % 4 == 1:
        # weights with structure: density compensation normalised to mean exactly one
        # (0.5 / 1.5 alternating), an R = 2 mask scaled by 2, all ones, a 0/1 mask
        kind_ = (case["oseed"] // 4) % 4
        flat = np.arange(w.size)
        w = [0.5 + (flat % 2), 2.0 * (flat % 2 == 0), np.ones(w.size),
             (flat % 3 != 0) * 1.0][kind_].reshape(w.shape).astype(float)
        wk += "-struct%d" % kind_
    if coord is not None and case["oseed"] % 3 == 0:
        # history: an operator for ANOTHER trajectory of the same shape was built and used
        # earlier in this process
        c_other = np.ascontiguousarray(make_coord(rng, "random", img[-ndt:], coord.shape[0]))
        if c_other.shape == coord.shape:
            Apre = mr.linop.Sense(mps, coord=c_other, weights=w)
            Apre(x)
    sig = "|".join(map(str, ["op", nd, "".join("o" if s % 2 else "e" for s in img), traj, wk,
                             "tseg" if tseg else "-", "nc%d" % min(nc, 3),
                             "c64" if single else "c128"]))
    t_exact = 1e-10 if not single else 2e-4
    t_batch = 1e-12 if not single else 1e-5
    wit = dict(case)
    try:
        A0 = mr.linop.Sense(mps, coord=coord, weights=w, tseg=tseg)
    except Exception as e:
        return violated(sig, "Sense construction raised %s: %s" % (type(e).__name__,
                                                                    str(e)[:200]), wit,
                        mech="ctor-raised")
    checks = 0
    obs = {}
    if list(A0.oshape) != [nc] + kshape or list(A0.ishape) != list(img):
        return violated(sig, "Sense advertises %s<-%s, expected %s<-%s" % (
            A0.oshape, A0.ishape, [nc] + kshape, img), wit, mech="shape")
    y0 = A0(x)
    # ---- explicit encoding
    if tseg is None:
        sq = 1.0 if w is None else np.sqrt(w)
        if coord is None:
            ref = sq * ODFT.dft(mps * x, axes=list(range(-nd, 0)), center=True, norm="ortho")
            e = nrm(y0 - ref) / max(nrm(ref), 1e-300)
            checks += 1
            obs["cart_err"] = e
            if not e <= t_exact:
                return violated(sig, "Sense differs from sqrt(w) F(mps x) with the explicit "
                                "centred DFT: rel %.3g" % e, wit, mech="encoding-cart", obs=obs)
        else:
            ref = sq * ONDFT.ndft(mps * x, coord, ndt)
            M, N = int(np.prod(kshape)), int(np.prod(img))
            errs = []
            for c in range(nc):
                wc = 1.0 if w is None else (np.sqrt(w[c]) if wk.startswith("percoil")
                                            else np.sqrt(w))
                den = max(nrm(ref[c]), np.sqrt(M / N) * nrm(wc * np.ones(kshape)) / np.sqrt(M)
                          * nrm(mps[c] * x))
                errs.append(nrm(y0[c] - ref[c]) / max(den, 1e-300))
            e = float(max(errs))
            checks += 1
            bound = max(0.03, sep_bound(1.25, ndt))
            obs["noncart_err/bound"] = e / bound
            if not e <= bound:
                return violated(sig, "non-Cartesian Sense differs from the exact NDFT encoding "
                                "by %.3g (bound %.3g)" % (e, bound), wit,
                                mech="encoding-noncart", obs=obs)
    # ---- adjoint
    yy = crandn(rng, tuple(A0.oshape), cdt)
    AHy = A0.H(yy)
    lhs, rhs = inner(y0, yy), inner(x, AHy)
    sc = nrm(y0) * nrm(yy) + nrm(x) * nrm(AHy) + 1e-300
    checks += 1
    obs["adjoint"] = abs(lhs - rhs) / sc
    if not abs(lhs - rhs) <= t_exact * sc:
        return violated(sig, "Sense adjoint identity fails: %s vs %s" % (lhs, rhs), wit,
                        mech="adjoint", obs=obs)
    # ---- batching invariance
    worst = 0.0
    for b in range(1, nc + 1):
        try:
            Ab = mr.linop.Sense(mps, coord=coord, weights=w, tseg=tseg, coil_batch_size=b)
            yb = Ab(x)
            xb = Ab.H(yy)
        except Exception as e:
            inn = e
            while inn.__cause__ is not None:
                inn = inn.__cause__
            return violated(sig, "coil_batch_size=%d of %d coils raised %s: %s" % (
                b, nc, type(inn).__name__, str(inn)[:200]), wit, mech="batch-raised")
        checks += 2
        if list(Ab.oshape) != list(A0.oshape) or yb.shape != y0.shape:
            return violated(sig, "coil_batch_size=%d gives oshape %s, unbatched %s" % (
                b, Ab.oshape, A0.oshape), wit, mech="batch-shape")
        # a second application of the same operator object to other data must not disturb the
        # k-space the caller still holds from the first one
        yb_keep = yb.copy()
        Ab(x * (0.3 - 0.7j))
        Ab.H(yy * 2)
        if not np.array_equal(yb, yb_keep):
            return violated(sig, "coil_batch_size=%d: the k-space returned by the first "
                            "application changed when the operator was applied again (results "
                            "share storage)" % b, wit, mech="batch-alias")
        e1 = nrm(yb - y0) / max(nrm(y0), 1e-300)
        e2 = nrm(xb - AHy) / max(nrm(AHy), 1e-300)
        worst = max(worst, e1, e2)
        if not max(e1, e2) <= t_batch:
            return violated(sig, "coil_batch_size=%d changes the result: forward rel %.3g, "
                            "adjoint rel %.3g" % (b, e1, e2), wit, mech="batch-value")
    obs["batch_dev"] = worst
    if traj == "cart" and nd == 2 and case["oseed"] % 5 == 2 and w is None:
        # maps that broadcast over an extra image axis (frames sharing one set of maps):
        # mps of shape (nc, 1, ny, nx) with ishape = (nt, ny, nx) given explicitly
        nt = 3
        mps2 = mps[:, None]
        ish2 = [nt] + list(img)
        x2 = crandn(rng, ish2, cdt)
        try:
            A2 = mr.linop.Sense(mps2, ishape=ish2)
            y2 = A2(x2)
            ref2 = ODFT.dft(mps2 * x2, axes=[-3, -2, -1], center=True, norm="ortho")
            e = nrm(y2 - ref2) / max(nrm(ref2), 1e-300)
            checks += 1
            if list(A2.oshape) != [nc] + ish2 or not e <= t_exact:
                return violated(sig, "Sense with broadcasting maps %s and ishape %s differs from "
                                "F(mps x): rel %.3g, oshape %s" % (list(mps2.shape), ish2, e,
                                                                   A2.oshape), wit,
                                mech="encoding-broadcast-maps", obs=obs)
            for b in range(1, nc):
                Ab = mr.linop.Sense(mps2, ishape=ish2, coil_batch_size=b)
                yb = Ab(x2)
                xb = Ab.H(y2)
                checks += 1
                if yb.shape != y2.shape or nrm(yb - y2) > t_batch * max(nrm(y2), 1e-300) or \
                        nrm(xb - A2.H(y2)) > t_batch * max(nrm(x2), 1e-300) * nc * 10:
                    return violated(sig, "broadcasting maps with ishape given: "
                                    "coil_batch_size=%d changes the result" % b, wit,
                                    mech="batch-value")
        except Exception as e:
            inn = e
            while inn.__cause__ is not None:
                inn = inn.__cause__
            return violated(sig, "Sense with broadcasting maps %s, ishape %s (coil batching) "
                            "raised %s: %s" % (list(mps2.shape), ish2, type(inn).__name__,
                                               str(inn)[:150]), wit, mech="batch-raised")
        sig += "|broadcast-maps"
    return held(sig, obs, checks)


def run_recon(case):
    import sigpy as sp
    import sigpy.mri as mr
    rng = np.random.default_rng(case["oseed"])
    img, nc, app = case["img"], case["nc"], case["app"]
    nd = len(img)
    n = int(np.prod(img))
    mps = crandn(rng, [nc] + img)
    xt = crandn(rng, img)
    if case["oseed"] % 3 == 0:
        # maps normalised to unit root-sum-of-squares (as ESPIRiT delivers them): an encoding
        # operator of modest norm
        mps = mps / np.sqrt(np.sum(np.abs(mps) ** 2, axis=0, keepdims=True))
    if case.get("msc"):
        mps = mps * case["msc"]
        xt = xt / case["msc"]
    elif case["app"].startswith("sense") and case["oseed"] % 5 == 2 and case["solver"] != "ADMM":
        # (ADMM's default penalty rho = 1 is not scale-free: its iteration budget is stated for
        # operators of ordinary norm)
        # maps of very small / large magnitude: the reconstruction scales inversely
        msc = [1e-5, 1e3][(case["oseed"] // 5) % 2]
        mps = mps * msc
        xt = xt / msc
    traj = case["traj"]
    coord = None
    w = None
    if traj == "random":
        M = max(16, 2 * n // nc + 4)
        coord = np.ascontiguousarray((rng.random((M, nd)) - 0.5) * np.asarray(img, float))
        kshape = [M]
    else:
        kshape = list(img)
    if app == "sense-consistent":
        traj, coord, kshape = "cart", None, list(img)
    if case["w"] == "kspace" and app != "sense-consistent":
        w = rng.random(kshape) + 0.2
    if case["w"] == "scalar" and app != "sense-consistent":
        w = float(pick(rng, [0.25, 9.0, 2.0]))        # a float: one weight for every sample
    if traj == "cart-mask" and w is None:
        w = (rng.random(kshape) < 0.7).astype(float)
        w.reshape(-1)[0] = 1.0
    A_plain = mr.linop.Sense(mps, coord=coord)
    if app == "sense-consistent":
        ksp = A_plain(xt)
    else:
        ksp = A_plain(xt) + 0.1 * crandn(rng, tuple(A_plain.oshape))
    # SenseRecon is linear in the data: k-space of magnitude 1e-10 / 1e+8 as well
    ks = [1.0, 1.0, 1e-10, 1e8][case["oseed"] % 4] if app.startswith("sense") else 1.0
    if ks != 1.0:
        ksp = ksp * ks
        xt = xt * ks
    lam = case["lam"]
    if case.get("msc"):
        lam = lam * case["msc"] ** 2      # the regulariser scales with the operator: same problem
    solver = case["solver"]
    sig = "|".join(map(str, ["recon", app, nd, traj, "w" if w is not None else "-", "ks%g" % ks,
                             "lam%g" % lam if app.startswith("sense") else "lam",
                             solver, "b%s" % case["batch"]]))
    wit = dict(case)
    # the operator and data the app is documented to use: P = sqrt(weights), y <- sqrt(w) y;
    # a Cartesian acquisition without weights estimates them from the sampled support
    w_eff = w
    if w is None and coord is None:
        w_eff = (np.sqrt(np.sum(np.abs(ksp) ** 2, axis=0)) > 0).astype(ksp.dtype)
    Aw = mr.linop.Sense(mps, coord=coord, weights=w_eff)
    Am = dense(Aw)
    yw = (ksp * (1.0 if w_eff is None else np.sqrt(w_eff))).ravel()
    H = Am.conj().T @ Am
    kw = dict(show_pbar=False, coil_batch_size=case["batch"])
    rho = case.get("rho")
    if solver == "ADMM" and rho and not case.get("msc") and app in ("sense", "tv"):
        kw["rho"] = rho         # the ADMM penalty: any positive value gives the same minimiser
        sig += "|rho%g" % rho
    else:
        rho = None
    ksp_keep, mps_keep = ksp.copy(), mps.copy()
    try:
        if app.startswith("sense"):
            if app != "sense-consistent" and np.linalg.cond(H + lam * np.eye(n)) > 1e4:
                return inconclusive("normal matrix too ill-conditioned for the iteration budget")
            if app == "sense-consistent" and np.linalg.cond(H) > 1e4:
                return inconclusive("encoding not well determined")
            iters = {None: 300, "ConjugateGradient": 300, "GradientMethod": 2500,
                     "PrimalDualHybridGradient": 3000, "ADMM": 200 if not rho else 1200}[solver]
            xr = mr.app.SenseRecon(ksp, mps, lamda=lam, weights=w, coord=coord, solver=solver,
                                   max_iter=iters, **kw).run()
            xref = np.linalg.solve(H + lam * np.eye(n), Am.conj().T @ yw)
            e = nrm(xr.ravel() - xref) / max(nrm(xref), 1e-300)
            obs = {"sense_err": e}
            tol = 1e-6 if solver in (None, "ConjugateGradient") else 1e-4
            if not e <= tol:
                return violated(sig, "SenseRecon (%s) differs from the normal-equation "
                                "solution of its documented objective: rel %.3g" % (solver, e),
                                wit, mech="sense-recon", obs=obs)
            if app == "sense-consistent":
                e2 = nrm(xr - xt) / nrm(xt)
                obs["consistent_err"] = e2
                if not e2 <= 1e-6 * max(1.0, np.linalg.cond(H)):
                    return violated(sig, "consistent fully determined data do not reproduce "
                                    "the image: rel %.3g" % e2, wit, mech="sense-consistent",
                                    obs=obs)
        else:
            if app == "tv":
                G = sp.linop.FiniteDifference(img)
                Gm = dense(G)
                R = mr.app.TotalVariationRecon(ksp, mps, lam, weights=w, coord=coord,
                                               solver=solver,
                                               max_iter=(250 if not rho else 1500)
                                               if solver == "ADMM" else 2500,
                                               **kw)
            else:
                W = sp.linop.Wavelet(img, wave_name="haar")
                Gm = dense(W)
                if Gm.shape[0] != Gm.shape[1] or \
                        np.linalg.norm(Gm.conj().T @ Gm - np.eye(n)) > 1e-10:
                    return inconclusive("wavelet operator not unitary on this shape")
                s2 = solver if solver != "ADMM" else None
                R = mr.app.L1WaveletRecon(ksp, mps, lam, weights=w, coord=coord,
                                          wave_name="haar", solver=s2, max_iter=2500, **kw)
            xr = R.run()
            if np.linalg.cond(H + 1e-12 * np.eye(n)) > 1e6:
                # objective still has minimisers; the dual bound needs H > 0
                return inconclusive("encoding rank-deficient: dual bound needs A^H A > 0")
            xref, phis, lower = OPT.solve_with_G(Am, yw, Gm, ("l1", lam))
            if not phis - lower <= 1e-8 * max(1.0, abs(phis)):
                return inconclusive("reference duality gap %.2g" % (phis - lower))
            xv = xr.ravel()
            val = 0.5 * float(np.sum(np.abs(Am @ xv - yw) ** 2)) + \
                lam * float(np.sum(np.abs(Gm @ xv)))
            gap = (val - lower) / max(1.0, abs(phis))
            obs = {"gap_rel": gap}
            if not gap <= 1e-5:
                return violated(sig, "%s: objective at the returned image is %.3g (relative) "
                                "above the certified optimum of its documented objective" % (
                                    app, gap), wit, mech="recon-" + app, obs=obs)
    except Exception as e:
        inn = e
        while inn.__cause__ is not None:
            inn = inn.__cause__
        return violated(sig, "reconstruction raised %s: %s" % (type(inn).__name__,
                                                               str(inn)[:200]), wit,
                        mech="recon-raised")
    changed = not (np.array_equal(ksp, ksp_keep) and np.array_equal(mps, mps_keep))
    if changed:
        obs["caller_arrays_changed"] = 1
    # the same reconstruction once more on the very same arrays (as a user comparing solvers or
    # regularisation values would do): must again be the minimiser, i.e. the same image
    if app.startswith("sense") and solver in (None, "ConjugateGradient"):
        xr2 = mr.app.SenseRecon(ksp, mps, lamda=lam, weights=w, coord=coord, solver=solver,
                                max_iter=iters, **kw).run()
        e2 = nrm(xr2.ravel() - xref) / max(nrm(xref), 1e-300)
        obs["second_run_err"] = e2
        if not e2 <= 1e-6:
            return violated(sig, "a second SenseRecon on the same k-space / maps arrays is off "
                            "by %.3g from the normal-equation solution (first run: %.3g; caller "
                            "arrays modified by the first run: %s)" % (e2, e, changed), wit,
                            mech="sense-recon-second-run", obs=obs)
    return held(sig, obs, 1)


def run_case(case):
    return run_op(case) if case["gen"] == "op" else run_recon(case)
