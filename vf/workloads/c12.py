"""C12 - conjugate gradient produces the Krylov-optimal iterate at every step.

Deciding monitor: offline checker over the recorded update history of the real
sigpy.alg.ConjugateGradient (state snapshots taken at the Alg API boundary after every
update) against dense references:
 (1) Krylov optimality: ||x_k - x_k^ref||_A <= 1e-6 * kappa * ||x0 - x*||_A + 1e-12, where
     x_k^ref minimises the A-norm error over x0 + K_k(PA, P r0) (A-orthonormal Arnoldi
     basis by two passes of modified Gram-Schmidt, orthonormality asserted to 1e-10,
     otherwise inconclusive), kappa = cond(P^(1/2) A P^(1/2)) clipped to [1, 1e4];
 (2) the A-norm error never increases over any prefix;
 (3) the tracked residual alg.r equals b - A x_k after every update k < max_iter (the code
     deliberately elides the residual update on the last permitted update; nothing can
     consume it any more, so it is not demanded there);
 (4) max_iter >= n  =>  exact solution within n updates;
 (5) alg.x is the caller's array at every event and holds the solution at the end;
 (6) non-positive curvature: an update started with Re<p, A p> <= 0 leaves x unchanged and
     done() is true afterwards; x stays finite.
"""
import numpy as np

from vf.common import Plan, crandn, held, violated, inconclusive, rng_for, nrm, pick

SPEC = {
    "rule": ("cases = (n in 1..12, real-symmetric or complex-Hermitian PD matrix with spectrum "
             "class [geometric cond 1..1e3 / clustered / repeated], right-hand side, initial "
             "guess zero or not, preconditioner None/Jacobi/random HPD/exact inverse, A as "
             "Linop or function, max_iter in {1, 2, n-1, n, n+2}, tol in {0, 1e-6}, vector "
             "layout [n] or [n,1]) plus non-PD systems (negative definite, indefinite, "
             "singular); distinct = those classes; non-trivial = n >= 2"),
    "boundscheck": {"quick": False, "thorough": False},
    "case_timeout": 120.0,
    "deciding_monitors": ["update:ConjugateGradient", "in:layout:strided"],
    "assumptions": ["dense references in float64, n <= 12, cond <= 1e3 (x cond(P) <= 10)"],
}


def plan(tier, seed):
    P = Plan(12, seed)
    quick = tier == "quick"
    rng = P.rng("cg")
    for i in range(500 if quick else 8000):
        n = int(rng.integers(1, 13))
        big = i % 7 == 6           # beyond the stated range: dimension 13..40, more updates
        if big:
            n = int(rng.integers(13, 41))
        P.add("cg", n=n, cplx=bool(rng.random() < 0.5),
              bs=pick(rng, [1, 1, 1, 1e8, 1e-10]), ms=pick(rng, [1, 1, 1, 1e4, 1e-4]),
              rhs=pick(rng, ["rand"] * 7 + ["zero", "eigvec", "x0-exact", "onehot"]),
              prior=bool(rng.random() < 0.25),
              spec=pick(rng, ["geo", "geo", "cluster", "repeat", "identity-ish"]),
              cond=float(10 ** rng.uniform(0, 2 if big else 3)),
              x0=pick(rng, ["zero", "rand", "rand", "alt", "zero-mean"]),
              P=pick(rng, ["none", "none", "jacobi", "hpd", "inverse", "identity", "buffered"]),
              decoy=bool(rng.random() < 0.3),
              A=pick(rng, ["linop", "func"]),
              mi=pick(rng, ["1", "2", "n-1", "n", "n+2"]),
              tol=pick(rng, [0.0, 0.0, 1e-6]),
              layout=pick(rng, ["vec", "col", "mat"]))
    # mixed precision: the caller's x is single precision, the right-hand side double
    for i in range(40 if quick else 500):
        n = int(rng.integers(2, 13))
        P.add("cg-mixed", n=n, cplx=bool(rng.random() < 0.5), cond=float(10 ** rng.uniform(0, 2)),
              x0=pick(rng, ["zero", "rand"]), A=pick(rng, ["linop", "func"]),
              P=pick(rng, ["none", "jacobi"]), xb=pick(rng, ["c64-c128", "f32-f64", "c64-f64"]))
    # fault injection: a well-formed operator fails once in the middle of a run (transient
    # I/O, out of memory, an interrupt) and the driver simply calls update() again: updates
    # that raised did not count, the counted ones are the CG sequence.  (Only A is made to
    # fail: applying it is the first thing an update does.  A failing preconditioner is
    # reached after x and r have been advanced - not atomic on the pinned tree either, and
    # nothing in the statement speaks about it; see DESIGN 10.4.)
    for i in range(60 if quick else 800):
        n = int(rng.integers(2, 13))
        P.add("cg-fault", n=n, cplx=bool(rng.random() < 0.5),
              cond=float(10 ** rng.uniform(0, 2)), x0=pick(rng, ["zero", "rand"]),
              A=pick(rng, ["linop", "func"]), P=pick(rng, ["none", "none", "jacobi"]),
              fail_at=[int(v) for v in sorted(rng.choice(np.arange(2, n + 2), size=int(
                  rng.integers(1, min(3, n + 1))), replace=False))],
              fail_in="A", exc=pick(rng, ["RuntimeError", "MemoryError",
                                                                 "KeyboardInterrupt"]))
    # long runs (more than a hundred updates on systems of 120-260 unknowns, as inside a
    # reconstruction): the A-norm error never increases, the tracked residual is b - A x at
    # every step, and the right-hand side is read when the solver is built - the in-place
    # solve ConjugateGradient(A, y, y) and a b buffer re-used by the caller afterwards work
    for i in range(12 if quick else 120):
        P.add("cg-long", n=int(rng.integers(120, 260)), cplx=bool(rng.random() < 0.5),
              cond=float(10 ** rng.uniform(2.5, 3.5)), updates=int(pick(rng, [130, 220])),
              bmode=pick(rng, ["plain", "b-is-x", "b-overwritten"]),
              A=pick(rng, ["linop", "func"]), P=pick(rng, ["none", "none", "jacobi"]))
    # an unknown of more than 2**22 entries in Fortran order (a large volume handed over as it
    # was read): three distinct eigenvalues, so three updates reach the solution - written
    # into the caller's array
    for i in range(1 if quick else 3):
        P.add("cg-huge", shape=pick(rng, [[2100, 2050], [176, 160, 160]]),
              order=pick(rng, ["F", "F", "T"]), cplx=bool(rng.random() < 0.5), timeout=900)
    for i in range(80 if quick else 1200):
        P.add("breakdown", n=int(rng.integers(1, 9)), cplx=bool(rng.random() < 0.5),
              kind=pick(rng, ["negdef", "indef", "singular", "zero"]),
              A=pick(rng, ["linop", "func"]))
    return P.cases


def hpd(rng, n, cplx, spec, cond):
    dt = np.complex128 if cplx else np.float64
    Q, _ = np.linalg.qr(crandn(rng, [n, n], dt))
    if spec == "geo":
        w = np.geomspace(1.0, cond, n) if n > 1 else np.array([1.0])
    elif spec == "cluster":
        w = np.concatenate([1 + 1e-3 * rng.random(n - n // 2),
                            cond * (1 + 1e-3 * rng.random(n // 2))])
    elif spec == "repeat":
        vals = np.geomspace(1.0, cond, max(1, min(3, n)))
        w = vals[rng.integers(0, len(vals), n)]
    else:
        w = 1 + 0.01 * rng.random(n)
    M = (Q * w) @ Q.conj().T
    return (M + M.conj().T) / 2


def anorm(M, v):
    v = v.ravel()
    return float(np.sqrt(max(np.real(np.vdot(v, M @ v)), 0.0)))


def krylov_refs(M, Pm, x0, b, kmax):
    """x_k^ref for k = 0..kmax; returns (list, ok) - ok False if the basis is not
    A-orthonormal to 1e-10 (reference does not certify itself)."""
    n = M.shape[0]
    r0 = b - M @ x0
    xstar = np.linalg.solve(M, b)
    V = []
    refs = [x0.copy()]
    v = Pm @ r0
    saturated = False
    for k in range(1, kmax + 1):
        if not saturated:
            w = v.copy()
            for _ in range(2):
                for u in V:
                    w = w - u * np.vdot(u, M @ w)
            na = np.sqrt(max(np.real(np.vdot(w, M @ w)), 0.0))
            scale = np.sqrt(max(np.real(np.vdot(v, M @ v)), 0.0))
            if na <= 1e-10 * max(scale, 1e-300) or len(V) >= n:
                saturated = True
            else:
                w = w / na
                V.append(w)
                v = Pm @ (M @ w)
        if saturated:
            refs.append(xstar.copy())
            continue
        Vm = np.stack(V, axis=1)
        G = Vm.conj().T @ M @ Vm
        if np.max(np.abs(G - np.eye(len(V)))) > 1e-8:
            return refs, False
        c = Vm.conj().T @ r0
        refs.append(x0 + Vm @ c)
    return refs, True


def run_cg(case):
    import sigpy as sp
    rng = rng_for(case)
    n, cplx = case["n"], case["cplx"]
    dt = np.complex128 if cplx else np.float64
    bs, ms = float(case.get("bs", 1)), float(case.get("ms", 1))
    # CG is invariant under scaling of the system and of the right-hand side: same claims
    M = hpd(rng, n, cplx, case["spec"], case["cond"]) * ms
    b = crandn(rng, [n], dt) * bs
    x0 = np.zeros(n, dt) if case["x0"] == "zero" else crandn(rng, [n], dt) * (bs / ms)
    if case["x0"] == "alt":
        # non-zero initial guesses whose entries cancel exactly: alternating +-c, ...
        x0 = (x0[0] * (-1.0) ** np.arange(n)).astype(dt)
        if n % 2:
            x0[-1] = 0
    elif case["x0"] == "zero-mean":
        # ... and zero-mean integers
        x0 = (np.arange(n) - (n - 1) / 2.0).astype(dt) * 2 * (bs / ms)
    # right-hand sides with structure: zero, an eigenvector of A (Krylov space of dimension
    # one: the solution after a single update, exact zero residual afterwards), a one-hot
    # vector, and an initial guess that already is the solution
    rhs = case.get("rhs", "rand")
    if rhs == "zero":
        b = np.zeros(n, dt)
    elif rhs == "eigvec":
        b = np.linalg.eigh(M)[1][:, int(rng.integers(n))].astype(dt) * bs
    elif rhs == "onehot":
        b = np.zeros(n, dt)
        b[int(rng.integers(n))] = bs
    elif rhs == "x0-exact":
        x0 = np.linalg.solve(M, b)
    if case.get("prior"):
        # history: a solver that breaks down (negative-definite system) is run to its stop in
        # this process before the system under test is solved
        try:
            bad = sp.alg.ConjugateGradient(lambda v: -(M @ v), b.copy() + 1, np.zeros(n, dt),
                                           max_iter=3)
            while not bad.done():
                bad.update()
            sp.alg.ConjugateGradient(lambda v: M @ v, b[:-1] if n > 1 else b, np.zeros(n, dt),
                                     max_iter=2).update()
        except Exception:
            pass
    if case["P"] in ("none", "identity"):
        Pm = np.eye(n, dtype=dt)
    elif case["P"] == "buffered":
        Pm = hpd(rng, n, cplx, "geo", 10.0)
    elif case["P"] == "jacobi":
        Pm = np.diag(1 / np.real(np.diag(M))).astype(dt)
    elif case["P"] == "hpd":
        Pm = hpd(rng, n, cplx, "geo", 10.0)
    else:
        Pm = np.linalg.inv(M)
        Pm = (Pm + Pm.conj().T) / 2
    mi = {"1": 1, "2": 2, "n-1": max(1, n - 1), "n": n, "n+2": n + 2}[case["mi"]]
    col = case["layout"] == "col"
    shape = [n, 1] if col else [n]
    if case["layout"] == "mat":
        # the unknown is a 2-D array (an image): n = n1 * n2 unknowns, A acts on the array
        n1 = max([d_ for d_ in range(1, n + 1) if n % d_ == 0 and d_ * d_ <= n])
        shape = [n1, n // n1] if rng.random() < 0.5 else [n // n1, n1]
    if case["A"] == "linop" or col:
        if col:
            Aop = sp.linop.MatMul(shape, M)
            Pop = None if case["P"] == "none" else sp.linop.MatMul(shape, Pm)
        else:
            Aop = lambda v: M @ v            # noqa: E731
            Pop = None if case["P"] == "none" else (lambda v: Pm @ v)
    else:
        Aop = lambda v: M @ v                # noqa: E731
        Pop = None if case["P"] == "none" else (lambda v: Pm @ v)
    if case["layout"] == "mat":
        Aop = lambda v: (M @ v.reshape(n)).reshape(shape)                 # noqa: E731
        Pop = None if case["P"] == "none" else (lambda v: (Pm @ v.reshape(n)).reshape(shape))
    if case["P"] == "identity":
        # a valid preconditioner that returns its own argument (no fresh array)
        Pop = sp.linop.Identity(shape) if (col and case["layout"] != "mat") else (lambda v: v)
    elif case["P"] == "buffered":
        # a function preconditioner that writes into its own, re-used output buffer
        _buf = np.zeros(shape, dt)

        def Pop(v, _buf=_buf):
            np.copyto(_buf, (Pm @ v.reshape(n)).reshape(shape))
            return _buf
    x = x0.reshape(shape).copy()
    bb = b.reshape(shape).copy()
    lay = case["rs"][-1] % 4
    if lay == 1:
        # the caller's x is a strided view of a larger array; b is read-only
        big = np.zeros(tuple(2 * n_ for n_ in shape), dt)
        sl = tuple(slice(None, None, 2) for _ in shape)
        big[sl] = x
        x = big[sl]
        bb.flags.writeable = False
    elif lay == 2 and len(shape) == 2:
        x = np.asfortranarray(x)
    b_keep = bb.copy()
    sig = "|".join(map(str, ["cg", "c" if cplx else "r", case["spec"],
                             "k%d" % int(np.log10(case["cond"])), case["x0"], case["P"],
                             "linop" if (case["A"] == "linop" or col) and col else "func",
                             case["mi"], case["tol"], case["layout"], "n%d" % (min(n, 3) if n < 13 else 13), "scaled" if (bs != 1 or ms != 1) else "",
                             "lay%d" % (case["rs"][-1] % 4), "decoy" if case.get("decoy") else "",
                             case.get("rhs", "rand"), "prior" if case.get("prior") else ""]))
    wit = dict(case)
    alg = sp.alg.ConjugateGradient(Aop, bb, x, P=Pop, max_iter=mi, tol=case["tol"])
    decoy = None
    if case.get("decoy"):
        # a second solver of the same shape and dtype alive at the same time and stepped in
        # lock-step: solver objects must not share working storage
        M2 = hpd(rng, n, cplx, "geo", 10.0)
        decoy = sp.alg.ConjugateGradient(
            ((lambda v: (M2 @ v.reshape(n)).reshape(shape)) if case["layout"] == "mat" else
             sp.linop.MatMul(shape, M2) if col else (lambda v: M2 @ v)),
            crandn(rng, shape, dt), np.zeros(shape, dt), max_iter=mi + 3)
    xstar = np.linalg.solve(M, b)
    e0 = anorm(M, x0 - xstar)
    unit = anorm(M, xstar) + anorm(M, x0)       # problem scale for the absolute floors
    # the residual norm the solver reports (stopping rule, progress display) is that of
    # b - A x0 before the first update: sqrt(r^H P r)
    r0_ = b - M @ x0
    rn0 = float(np.sqrt(max(np.real(np.vdot(r0_, Pm @ r0_)), 0.0)))
    if not abs(float(alg.resid) - rn0) <= 1e-9 * max(rn0, 1e-300) + 1e-12 * float(
            np.sqrt(np.real(np.vdot(b, Pm @ b))) + np.sqrt(np.real(np.vdot(M @ x0, Pm @ (M @ x0))))):
        return violated(sig, "reported residual norm %r before the first update, b - A x0 has "
                        "%.6g" % (alg.resid, rn0), wit, mech="resid-initial")
    hist = []
    nupd = 0
    while not alg.done():
        if decoy is not None and not decoy.done():
            decoy.update()
        alg.update()
        nupd += 1
        hist.append({"k": nupd, "iter": alg.iter, "x": alg.x.ravel().copy(),
                     "r": np.asarray(alg.r).ravel().copy(), "same": alg.x is x,
                     "npd": alg.not_positive_definite})
        if nupd > mi + 3:
            return violated(sig, "loop did not stop: %d updates with max_iter=%d" % (nupd, mi),
                            wit, mech="no-stop")
    checks = 0
    if nupd > mi:
        return violated(sig, "%d updates with max_iter=%d" % (nupd, mi), wit, mech="max_iter")
    refs, ok = krylov_refs(M, Pm, x0, b, nupd)
    if not ok:
        return inconclusive("Arnoldi reference not A-orthonormal")
    # condition number of the preconditioned operator
    try:
        Lc = np.linalg.cholesky((Pm + Pm.conj().T) / 2)
        kap = np.linalg.cond(Lc.conj().T @ M @ Lc)
    except np.linalg.LinAlgError:
        kap = np.linalg.cond(Pm @ M)
    kap = float(min(max(kap, 1.0), 1e4))
    obs = {"updates": nupd, "kappa": kap}
    prev = e0
    worst = 0.0
    worst_model = 0.0
    skipped = 0
    drift_seen = 0.0
    lsmax = cjmax = 0.0
    for h in hist:
        k = h["k"]
        if h["npd"] and anorm(M, h["x"] - xstar) > 1e-8 * e0 + 1e-12 * unit:
            # (once the residual is exactly zero the search direction is zero too and
            # p^H A p = 0 takes the same branch: a stop at the solution, not a false alarm)
            return violated(sig, "positive-definite system flagged as not positive definite "
                            "at update %d" % k, wit, mech="false-breakdown")
        if not h["same"]:
            return violated(sig, "alg.x is no longer the caller's array at update %d" % k, wit,
                            mech="not-in-place")
        if h["iter"] != k:
            return violated(sig, "iteration counter %d after %d updates" % (h["iter"], k), wit,
                            mech="counter")
        ek = anorm(M, h["x"] - xstar)
        dk = anorm(M, h["x"] - refs[k])
        checks += 3
        # Floating-point CG drifts away from the exact Krylov iterate as orthogonality is
        # lost (classical; it no longer terminates finitely for ill-conditioned systems).
        # Drift model: dk/e0 <~ 1e-12 * kappa^(k/2); the global optimality claim is decided
        # only at steps where the model predicts a drift below 1e-4, with the model (and a
        # floor of 1e-9) as the tolerance.  A wrong recurrence is off by >= 1e-3 from k = 2.
        model = 1e-12 * kap ** (k / 2.0)
        rel = dk / max(e0, 1e-300)
        if model <= 1e-4:
            worst = max(worst, rel)
            worst_model = max(worst_model, rel / max(model, 1e-9))
            if not dk <= max(model, 1e-9) * e0 + 1e-12 * unit:
                return violated(sig, "iterate %d is not the Krylov-optimal one: A-norm "
                                "distance to the reference %.3g (bound %.3g, e0 %.3g)" % (
                                    k, dk, max(model, 1e-9) * e0, e0), wit, mech="krylov",
                                obs={"k": k, "dist": dk, "e0": e0})
        else:
            skipped += 1
            drift_seen = max(drift_seen, rel / model)
        if not ek <= prev * (1 + 1e-9) + 1e-13 * e0 + 1e-12 * unit:
            return violated(sig, "A-norm error increased at update %d: %.6g -> %.6g" % (
                k, prev, ek), wit, mech="monotone")
        prev = ek
        # local optimality, from the x history alone (holds in floating point at every
        # step, also where the global claim is out of reach): the step d_k = x_k - x_{k-1}
        # is an exact line search, <d_k, b - A x_k> = 0, and successive steps are
        # A-conjugate, <d_k, A d_{k-1}> = 0
        xprev = hist[k - 2]["x"] if k >= 2 else x0
        dstep = h["x"] - xprev
        rk = b - M @ h["x"]
        dA = anorm(M, dstep)
        # (e_k is signal, not noise: not yet converged, and the start was not already the
        # solution up to round-off)
        if dA > 0 and ek >= 1e-5 * e0 and e0 > 1e-9 * unit:
            ls = abs(np.vdot(dstep, rk)) / (dA * ek)        # A-cosine(step, remaining error)
            lsmax = max(lsmax, ls)
            checks += 1
            if not ls <= 1e-6:
                return violated(sig, "step %d is not an exact line search: A-cosine between "
                                "the step and the remaining error = %.3g" % (k, ls), wit,
                                mech="linesearch")
            if k >= 2:
                dprev = xprev - (hist[k - 3]["x"] if k >= 3 else x0)
                den = dA * anorm(M, dprev)
                if den > 0:
                    cj = abs(np.vdot(dstep, M @ dprev)) / den
                    cjmax = max(cjmax, cj)
                    checks += 1
                    if not cj <= 1e-6:
                        return violated(sig, "steps %d and %d are not A-conjugate: A-cosine "
                                        "%.3g" % (k, k - 1, cj), wit, mech="conjugacy")
        if k < mi:
            rr = b - M @ h["x"]
            dr = nrm(h["r"] - rr)
            if not dr <= 1e-9 * max(nrm(b), nrm(M @ x0), 1e-300) * max(1.0, kap ** 0.5):
                return violated(sig, "tracked residual differs from b - A x after update %d by "
                                "%.3g" % (k, dr), wit, mech="residual")
    obs["krylov_dist/e0"] = worst
    obs["krylov_dist/tolerance"] = worst_model
    obs["drift/model_on_skipped_steps"] = drift_seen
    obs["linesearch_cos"] = lsmax
    obs["conjugacy_cos"] = cjmax
    obs["krylov_steps_skipped_by_drift_model"] = skipped
    if mi >= n and case["tol"] == 0.0 and nupd >= n and 1e-12 * kap ** (n / 2.0) <= 1e-4:
        en = anorm(M, hist[n - 1]["x"] - xstar)
        checks += 1
        if not en <= max(1e-12 * kap ** (n / 2.0), 1e-9) * e0 + 1e-12 * unit:
            return violated(sig, "no finite termination: error %.3g after n=%d updates (e0 "
                            "%.3g)" % (en, n, e0), wit, mech="finite-termination")
    if case["tol"] == 0.0 and nupd < mi:
        # stopped early with tol = 0: only legitimate at the exact solution
        if prev > 1e-6 * kap * e0 + 1e-12 * unit and not any(
                hh["npd"] for hh in hist):
            return violated(sig, "stopped after %d < max_iter=%d updates with tol=0 at error "
                            "%.3g" % (nupd, mi, prev), wit, mech="early-stop")
    if not np.array_equal(x.ravel(), hist[-1]["x"]) if hist else False:
        return violated(sig, "caller's array does not hold the final iterate", wit,
                        mech="not-in-place")
    if not np.array_equal(bb, b_keep):
        return violated(sig, "right-hand side modified", wit, mech="mutated-b")
    return held(sig, obs, checks, n >= 2)


def run_breakdown(case):
    import sigpy as sp
    rng = rng_for(case)
    n, cplx = case["n"], case["cplx"]
    dt = np.complex128 if cplx else np.float64
    H = hpd(rng, n, cplx, "geo", 10.0)
    Q, _ = np.linalg.qr(crandn(rng, [n, n], dt))
    kind = case["kind"]
    if kind == "negdef":
        M = -H
    elif kind == "indef":
        w = np.where(rng.random(n) < 0.5, -1.0, 1.0) * (1 + rng.random(n))
        if n == 1:
            w = -np.abs(w)
        M = (Q * w) @ Q.conj().T
    elif kind == "singular":
        w = 1 + rng.random(n)
        w[: max(1, n // 2)] = 0
        M = (Q * w) @ Q.conj().T
    else:
        M = np.zeros((n, n), dt)
    M = (M + M.conj().T) / 2
    b = crandn(rng, [n, 1], dt)
    x = np.zeros([n, 1], dt)
    Aop = sp.linop.MatMul([n, 1], M) if case["A"] == "linop" else (lambda v: M @ v)
    sig = "breakdown|%s|%s|%s" % (kind, "c" if cplx else "r", case["A"])
    wit = dict(case)
    mi = n + 3
    alg = sp.alg.ConjugateGradient(Aop, b.copy(), x, max_iter=mi)
    nupd = 0
    broke = 0
    while not alg.done():
        p = np.asarray(alg.p).copy()
        pAp = float(np.real(np.vdot(p.ravel(), (M @ p).ravel())))
        xb = x.copy()
        alg.update()
        nupd += 1
        if not np.all(np.isfinite(x)):
            return violated(sig, "iterate became non-finite on a non-positive-definite system",
                            wit, mech="diverged")
        if pAp <= 0:
            broke += 1
            if not np.array_equal(x, xb):
                return violated(sig, "update with Re<p,Ap> = %.3g <= 0 changed x" % pAp, wit,
                                mech="breakdown-moved")
            if not alg.done():
                return violated(sig, "solver continues after non-positive curvature", wit,
                                mech="breakdown-continue")
        if nupd > mi + 2:
            return violated(sig, "loop did not stop", wit, mech="no-stop")
    return held(sig, {"updates": nupd, "breakdowns": broke}, nupd + 1, True)


def run_mixed(case):
    """Caller's x in single precision, b (and A) in double: the solution is still written into
    the caller's array (in-place same-kind cast), to single-precision accuracy."""
    import sigpy as sp
    rng = rng_for(case)
    n = case["n"]
    xb = case["xb"]
    cplx_sys = xb != "f32-f64" and (case["cplx"] or xb == "c64-c128")
    if xb == "c64-f64":
        cplx_sys = False
    M = hpd(rng, n, cplx_sys, "geo", case["cond"])
    bdt = np.complex128 if cplx_sys else np.float64
    b = crandn(rng, [n], bdt)
    xdt = np.float32 if xb == "f32-f64" else np.complex64
    x0 = np.zeros(n, xdt) if case["x0"] == "zero" else crandn(rng, [n], xdt)
    col = case["A"] == "linop"
    shape = [n, 1] if col else [n]
    Aop = sp.linop.MatMul(shape, M) if col else (lambda v: M @ v)
    Pop = None
    if case["P"] == "jacobi":
        d = (1 / np.real(np.diag(M)))
        Pop = sp.linop.Multiply(shape, d.reshape(shape)) if col else (lambda v: d * v)
    x = x0.reshape(shape).copy()
    bb = b.reshape(shape).copy()
    sig = "cg-mixed|%s|%s|%s|%s" % (xb, case["x0"], "linop" if col else "func", case["P"])
    wit = dict(case)
    try:
        alg = sp.alg.ConjugateGradient(Aop, bb, x, P=Pop, max_iter=3 * n, tol=0)
        k = 0
        while not alg.done():
            alg.update()
            k += 1
            if alg.x is not x:
                return violated(sig, "alg.x is no longer the caller's (single-precision) array "
                                "at update %d" % k, wit, mech="not-in-place")
            if k > 3 * n + 2:
                return violated(sig, "loop did not stop", wit, mech="no-stop")
    except Exception as e:
        return inconclusive("mixed-precision start rejected: %s: %s" % (
            type(e).__name__, str(e)[:100]), sig="cg-mixed-rejected")
    if x.dtype != xdt:
        return violated(sig, "the caller's array changed its element type", wit,
                        mech="not-in-place")
    xstar = np.linalg.solve(M, b)
    e0 = anorm(M, x0.astype(bdt) - xstar)
    en = anorm(M, x.ravel().astype(bdt) - xstar)
    obs = {"err/e0": en / max(e0, 1e-300)}
    kap = float(np.linalg.cond(M))
    if not en <= 1e-4 * kap * (e0 + anorm(M, xstar)):
        return violated(sig, "the caller's array does not hold the solution after %d updates: "
                        "A-norm error %.3g (initial %.3g)" % (k, en, e0), wit,
                        mech="mixed-not-written", obs=obs)
    if not np.array_equal(bb.ravel(), b):
        return violated(sig, "right-hand side modified", wit, mech="mutated-b")
    return held(sig, obs, 3, True)


def run_fault(case):
    import sigpy as sp
    rng = rng_for(case)
    n, cplx = case["n"], case["cplx"]
    dt = np.complex128 if cplx else np.float64
    M = hpd(rng, n, cplx, "geo", case["cond"])
    b = crandn(rng, [n], dt)
    x0 = np.zeros(n, dt) if case["x0"] == "zero" else crandn(rng, [n], dt)
    Pm = np.diag(1 / np.real(np.diag(M))).astype(dt) if case["P"] == "jacobi" else None
    sig = "cg-fault|%s|%s|%s|%s" % (case["A"], case["P"], case["fail_in"], case["exc"])
    wit = dict(case)
    exc = {"RuntimeError": RuntimeError, "MemoryError": MemoryError,
           "KeyboardInterrupt": KeyboardInterrupt}[case["exc"]]

    def make(fail_at, which):
        count = {"A": 0, "P": 0}

        def wrap(mat, key):
            def f(v):
                count[key] += 1
                if key == which and count[key] in fail_at:
                    raise exc("injected transient failure")
                return mat @ v
            return f
        fa = wrap(M, "A")
        A = sp.linop.Linop([n], [n]) if False else None
        if case["A"] == "linop":
            class Op(sp.linop.Linop):
                def __init__(self):
                    super().__init__([n], [n])

                def _apply(self, input):
                    return fa(input)

                def _adjoint_linop(self):
                    return self
            A = Op()
        else:
            A = fa
        Pf = wrap(Pm, "P") if Pm is not None else None
        return A, Pf, count

    K = n + 2
    # reference run: no failure
    A0, P0, _ = make((), "A")
    xr = x0.copy()
    alg0 = sp.alg.ConjugateGradient(A0, b, xr, P=P0, max_iter=K, tol=0)
    ref = [xr.copy()]
    while not alg0.done():
        alg0.update()
        ref.append(xr.copy())
    which = case["fail_in"] if Pm is not None else "A"
    A1, P1, count = make(tuple(case["fail_at"]), which)
    x = x0.copy()
    try:
        alg = sp.alg.ConjugateGradient(A1, b, x, P=P1, max_iter=K, tol=0)
    except BaseException as e:
        inn = e
        while not isinstance(inn, exc) and inn.__cause__ is not None:
            inn = inn.__cause__
        if isinstance(inn, exc):
            return inconclusive("the injected failure hit the constructor", sig="cg-fault-ctor")
        raise
    got = [x.copy()]
    raised = 0
    checks = 0
    steps = 0
    while not alg.done() and steps < 4 * K + 8:
        steps += 1
        it0 = alg.iter
        try:
            alg.update()
        except BaseException as e:
            inn = e                       # (Linop.apply re-raises as RuntimeError from e)
            while not isinstance(inn, exc) and inn.__cause__ is not None:
                inn = inn.__cause__
            if not isinstance(inn, exc):
                raise
            raised += 1
            checks += 1
            if alg.iter != it0:
                return violated(sig, "an update that raised moved the iteration counter from "
                                "%d to %d" % (it0, alg.iter), wit, mech="fault-counter")
            continue                      # the driver simply tries again
        got.append(x.copy())
    if not raised:
        return inconclusive("the injected failure was never reached", sig="cg-fault-unreached")
    scale = max(nrm(np.linalg.solve(M, b)), nrm(x0), 1e-300)
    if len(got) != len(ref):
        return violated(sig, "after %d failed update(s) the run performed %d counted updates, "
                        "the undisturbed run %d" % (raised, len(got) - 1, len(ref) - 1), wit,
                        mech="fault-count")
    for k in range(len(ref)):
        checks += 1
        d = nrm(got[k] - ref[k]) / scale
        if not d <= 1e-9 * max(1.0, case["cond"]):
            return violated(sig, "after an update failed (the operator raised %s once) and was "
                            "repeated, the iterate after %d counted updates differs from the "
                            "undisturbed CG iterate by %.3g (relative): it is no longer the "
                            "Krylov-optimal one" % (case["exc"], k, d), wit,
                            mech="fault-retry", obs={"dev": d, "k": k})
    return held(sig, {"failed_updates": raised, "counted_updates": len(got) - 1}, checks, True)


def run_long(case):
    import sigpy as sp
    rng = rng_for(case)
    n, cplx = case["n"], case["cplx"]
    dt = np.complex128 if cplx else np.float64
    M = hpd(rng, n, cplx, "geo", case["cond"])
    xstar = crandn(rng, [n], dt)
    b0 = M @ xstar
    sig = "cg-long|%s|%s|%s|%s" % (case["bmode"], case["A"], case["P"], "c" if cplx else "r")
    wit = dict(case)
    Pf = None
    if case["P"] == "jacobi":
        dinv = 1 / np.real(np.diag(M))
        Pf = lambda v: dinv * v                      # noqa: E731
    A = sp.linop.MatMul([n, 1], M) if case["A"] == "linop" else (lambda v: M @ v)
    shp = [n, 1] if case["A"] == "linop" else [n]
    if case["bmode"] == "b-is-x":
        x = b0.reshape(shp).copy()
        b = x                                         # in-place solve: start from the data
        x0 = x.copy()
    else:
        b = b0.reshape(shp).copy()
        x = np.zeros(shp, dt)
        x0 = x.copy()
    if Pf is not None and case["A"] == "linop":
        Pf = sp.linop.Multiply(shp, (1 / np.real(np.diag(M))).reshape(shp))
    K = case["updates"]
    alg = sp.alg.ConjugateGradient(A, b, x, P=Pf, max_iter=K + 5, tol=0)
    if case["bmode"] == "b-overwritten":
        b[...] = 1e3                                  # the caller re-uses its buffer
    e_prev = anorm(M, x0.ravel() - xstar)
    e0 = e_prev
    scale_r = nrm(b0) + 1e-300
    checks = 0
    worst_r = 0.0
    for k in range(1, K + 1):
        if alg.done():
            break
        alg.update()
        e = anorm(M, x.ravel() - xstar)
        checks += 2
        if not e <= e_prev * (1 + 1e-6) + 1e-9 * e0:
            return violated(sig, "A-norm error increased at update %d: %.6g -> %.6g (n = %d, "
                            "right-hand side mode %s)" % (k, e_prev, e, n, case["bmode"]), wit,
                            mech="long-monotone", obs={"k": k})
        if k < K + 4 and not getattr(alg, "not_positive_definite", False):
            rt = np.asarray(alg.r).ravel()
            dev = nrm(rt - (b0 - M @ x.ravel())) / scale_r
            worst_r = max(worst_r, dev)
            if not dev <= 1e-6:
                return violated(sig, "tracked residual differs from b - A x by %.3g (relative to "
                                "||b||) after update %d (n = %d, right-hand side mode %s)" % (
                                    dev, k, n, case["bmode"]), wit, mech="long-residual",
                                obs={"k": k})
        e_prev = e
    if not e_prev <= 1e-3 * e0:
        return violated(sig, "after %d updates the A-norm error is still %.3g of the initial one "
                        "(cond %.3g, n = %d)" % (K, e_prev / e0, case["cond"], n), wit,
                        mech="long-convergence")
    return held(sig, {"final_rel_err": e_prev / e0, "residual_dev": worst_r}, checks, True)


def run_huge(case):
    import sigpy as sp
    rng = rng_for(case)
    shape = case["shape"]
    dt = np.complex64 if case["cplx"] else np.float64
    ev = np.array([1.0, 2.5, 4.0])
    d = ev[rng.integers(0, 3, shape)].astype(np.float32 if case["cplx"] else np.float64)
    xs = crandn(rng, shape, dt)
    b = (d * xs).astype(dt)
    if case["order"] == "F":
        x = np.zeros(shape, dt, order="F")
    else:
        x = np.zeros(shape[::-1], dt).T
    sig = "cg-huge|%s|%s|%s" % ("x".join(map(str, shape)), case["order"], dt.__name__)
    wit = dict(case)
    alg = sp.alg.ConjugateGradient(lambda v: d * v, b, x, max_iter=3, tol=0)
    k = 0
    while not alg.done():
        alg.update()
        k += 1
    if alg.x is not x:
        return violated(sig, "alg.x is no longer the caller's array", wit, mech="not-in-place")
    err = nrm(x - xs) / nrm(xs)
    tol = 1e-9 if dt == np.float64 else 1e-3
    if not err <= tol:
        return violated(sig, "a diagonal system with three distinct eigenvalues is not solved "
                        "after three updates: relative error %.3g in the caller's %s-ordered "
                        "array of %d entries (%d updates)" % (err, case["order"], x.size, k), wit,
                        mech="huge-not-solved", obs={"err": err})
    return held(sig, {"err": err, "entries": int(x.size)}, 1, True)


def run_case(case):
    if case["gen"] == "cg-huge":
        return run_huge(case)
    if case["gen"] == "cg-long":
        return run_long(case)
    if case["gen"] == "cg-fault":
        return run_fault(case)
    if case["gen"] == "cg-mixed":
        return run_mixed(case)
    if case["gen"] == "cg":
        return run_cg(case)
    return run_breakdown(case)
