"""C02 - operators are linear over C, deterministic, and never mutate inputs.

Deciding monitors:
 (1) invariant hooks on Linop.apply / Prox.__call__ (vf.monitors): the caller's input
     array and every array captured by the operator / prox object hold the same bytes
     at return as at entry - for every application any workload causes, nested ones and
     the ones inside solver runs ('consumer' generator) included; plus explicit
     before/after comparison of every ndarray argument of the public array functions of
     sigpy and sigpy.mri.util ('func' generator; axpy/xpay first argument excluded: it
     is their documented output);  read-only, non-contiguous and aliased inputs are part
     of the workload (a hidden in-place write into a read-only input raises, which the
     workload records as a violation);
 (2) C-linearity  A(a x + y) = a A(x) + A(y)  with a = i and a random complex a, on the
     operator classes / trees of C01's generators, tolerance 1e-10 relative;
 (3) determinism over histories: the same operator object applied to equal inputs twice,
     again after .H / .N were taken (lazy caches), again after they were applied: equal
     to 1e-12 relative;  and a fresh-interpreter history check for the thresholding
     functions / L1Reg (complex-first vs real-first order): equal values and dtype.
"""
import numpy as np

from vf import lops
from vf.monitors import STATE
from vf.oracles.algebra import Spec
from vf.common import structured, Plan, crandn, held, violated, inconclusive, rng_for, nrm, pick
from vf import repo_tests

SPEC = {
    "rule": ("cases = (a) operator descriptions (all leaf classes, trees) checked for "
             "linearity, determinism over .H/.N histories, read-only / non-contiguous inputs; "
             "(b) one public array function with generated arguments each; (c) Prox objects "
             "with array parameters; (d) solver runs (consumers) under the mutation hooks; "
             "(e) fresh-interpreter dtype-history orders; distinct = structural signature / "
             "function name + argument class; non-trivial = non-Identity operator or a "
             "function call with at least one array argument"),
    "boundscheck": {"quick": False, "thorough": True},
    "case_timeout": 240.0,
    "deciding_monitors": ["Linop.apply:checked", "Prox.__call__:contract", "in:layout:F", "in:layout:strided", "in:readonly", "in:complex64"],
    "assumptions": ["byte-level comparison (blake2b) of arrays up to 16 MiB, strided sample "
                    "above", "CPU/numpy backend"],
}

FUNCS = ["fft", "ifft", "nufft", "nufft_adjoint", "toeplitz_psf", "interpolate", "gridding",
         "convolve", "convolve_data_adjoint", "convolve_filter_adjoint", "array_to_blocks",
         "blocks_to_array", "fwt", "iwt", "soft_thresh", "hard_thresh", "l1_proj", "l2_proj",
         "linf_proj", "psd_proj", "resize", "flip", "circshift", "downsample", "upsample",
         "rss", "vec", "split", "leja", "monte_carlo_sure", "axpy", "xpay", "get_cov",
         "whiten", "tseg_off_res_b_ct", "apply_tseg", "estimate_shape", "to_device",
         "copyto"]
PROXES = ["L1Reg", "L2Reg", "L2Reg-y", "L2Reg-proxh", "L2Proj", "L2Proj-y", "LInfProj",
          "LInfProj-bias", "L1Proj", "PsdProj", "BoxConstraint", "BoxConstraint-arr", "Conj",
          "Stack", "Stack-alpha", "UnitaryTransform", "NoOp"]
CONSUMERS = ["lls-cg", "lls-cg-z", "lls-gm", "lls-pdhg", "lls-pdhg-G", "lls-admm",
             "lls-admm-identity", "maxeig", "sense-recon", "l1wav-recon", "tv-recon"]


def plan(tier, seed):
    P = Plan(2, seed)
    quick = tier == "quick"
    per_kind = 10 if quick else 150
    maxn = 6 if quick else 8
    for kind in lops.LEAF_KINDS:
        rng = P.rng("lin:" + kind)
        for i in range(per_kind):
            d = lops.gen_leaf(rng, kind, None, maxn)
            if d is not None:
                P.add("lin:" + kind, desc=d)
    for kind in lops.LEAF_KINDS:
        # size / magnitude dependent regime (lengths past 16 / 32, > 3 batch or coil entries,
        # data scaled by 1e-8 / 1e+8)
        rng = P.rng("lin-big:" + kind)
        for i in range(3 if quick else 40):
            d = lops.gen_leaf(rng, kind, None, 34)
            if d is not None:
                P.add("lin-big:" + kind, desc=d, mag=pick(rng, [1, 1, 1e-10, 1e8]))
    rng = P.rng("lin:tree")
    for i in range(300 if quick else 8000):
        depth = int(rng.integers(1, 4 if quick else 5))
        P.add("lin:tree", desc=lops.gen_tree(rng, depth, None, 5))
    rng = P.rng("func")
    for f in FUNCS:
        for i in range(6 if quick else 60):
            P.add("func", fn=f, fseed=int(rng.integers(1 << 30)))
    for p in PROXES:
        for i in range(5 if quick else 40):
            P.add("prox", prox=p, fseed=int(rng.integers(1 << 30)))
    for c in CONSUMERS:
        for i in range(2 if quick else 12):
            P.add("consumer", which=c, fseed=int(rng.integers(1 << 30)))
    # kept-object histories: an expression object that the caller keeps must give the same
    # output for the same input after other expressions have been built from it
    rng = P.rng("kept")
    for i in range(80 if quick else 1500):
        shape = [int(rng.integers(1, 5)) for _ in range(int(rng.integers(1, 4)))]
        P.add("kept", leaves=[lops.gen_endo(rng, shape, 4) for _ in range(4)], shape=shape,
              base=pick(rng, ["Add", "Add", "Sub", "Compose", "Scale", "Hstack", "Vstack",
                              "Diag"]),
              order=[int(v) for v in rng.permutation(7)])
    for order in ("complex-first", "real-first"):
        for i in range(1 if quick else 3):
            P.add("history", order=order, fseed=int(rng.integers(1 << 30)), fresh=True,
                  timeout=200.0)
    if tier == "thorough" and repo_tests.available():
        # the repository's own test suite as one more workload under the always-on monitors
        P.add("repo-tests", timeout=1800.0, fresh=True)
    return P.cases


# --------------------------------------------------------------- linearity --

def _innermost(e):
    while e.__cause__ is not None:
        e = e.__cause__
    return e


def run_lin(case):
    desc = case["desc"]
    rng = rng_for(case)
    sig = lops.signature(desc)
    nontrivial = any(l != "Identity" for l in lops.leaf_ops(desc))
    try:
        if sum(case["rs"]) % 2:
            lops.prime_siblings(desc)     # construction history (see lops.prime_siblings)
        A = lops.build(desc)
    except Exception as e:
        return inconclusive("constructor raised %s: %s [%s]" % (
            type(e).__name__, str(e)[:60], sig[:150]), sig="ctor-raised")
    wit = {"desc": desc, "repr": repr(A)}
    ish = tuple(A.ishape)
    if sum(case["rs"]) % 5 == 0 and not case.get("force_double"):
        sig += "|c64"
    # a fifth of the cases run in single precision (complex64 data): dtype-specific paths
    single = (sum(case["rs"]) % 5 == 0) and not case.get("force_double")
    cdt = np.complex64 if single else np.complex128
    tol = 2e-4 if single else 1e-10
    dtol = 1e-5 if single else 1e-12
    checks = 0
    obs = {}
    hist = sum(case["rs"]) % 2 == 0
    fort = sum(case["rs"]) % 3 == 0
    if hist:
        # history: the very first application of this operator object is on REAL data (an
        # object that remembers a dtype or a buffer from its first use shows up afterwards)
        sig += "|realfirst"
        try:
            A(np.asarray(crandn(rng, ish, np.float64)))
        except Exception:
            pass
    if sum(case["rs"]) % 3 == 2:
        # history: the very first uses of this operator object are rejected applications
        # (wrong rank), before any valid one
        sig += "|rejected-first"
        for bad_ in (tuple(ish) + (2,), tuple(ish)[:-1], tuple(ish)[1:]):
            try:
                A(np.ones(bad_, cdt))
            except Exception:
                pass
    try:
        with structured((sum(case["rs"]) // 3) % 10 if sum(case["rs"]) % 2 else 0) as skind:
            x = crandn(rng, ish, cdt)
            y = crandn(rng, ish, cdt)
        if skind != "gauss":
            sig += "|" + skind
        if case.get("mag", 1) != 1:
            x, y = np.asarray(x * cdt(case["mag"])), np.asarray(y * cdt(case["mag"]))
            sig += "|mag%g" % case["mag"]
        if fort and len(ish) >= 2:
            x, y = np.asfortranarray(x), np.asfortranarray(y)      # memory layout variant
            sig += "|F"
        x0, y0 = x.copy(), y.copy()
        STATE.peak = 0.0
        Ax, Ay = np.asarray(A(x)), np.asarray(A(y))
        peak = STATE.peak
        rnd = 0.0
        if "parts" in desc or "A" in desc:
            rnd = 1e13 * Spec(lops.build, lops.scalar_value).noise(desc, x + y)[1]
        worst = 0.0
        for a in (1j, complex(rng.standard_normal(), rng.standard_normal())):
            lhs = np.asarray(A(np.asarray(a * x + y)))
            rhs = a * Ax + Ay
            checks += 1
            sc = abs(a) * nrm(Ax) + nrm(Ay) + 1e-3 * (1 + abs(a)) * max(nrm(x), nrm(y), peak) \
                + (1 + abs(a)) * rnd
            e = nrm(lhs - rhs) / sc if sc > 0 else nrm(lhs - rhs)
            worst = max(worst, e)
            if not e <= tol:
                return violated(sig, "not linear over C: ||A(a x + y) - a A(x) - A(y)|| rel "
                                "%.3g for a = %s" % (e, a), wit, mech="linearity",
                                obs={"rel": e})
        obs["linearity"] = worst
        # real x, y with complex a: the same identity on the real-input path (sigpy's fft casts
        # real input to complex64, hence the looser tolerance; operators that reject real
        # data loudly are skipped)
        if sum(case["rs"]) % 4 != 1:
            xr, yr_ = crandn(rng, ish, np.float64), crandn(rng, ish, np.float64)
            try:
                Axr, Ayr = np.asarray(A(xr)), np.asarray(A(yr_))
                a = complex(rng.standard_normal(), rng.standard_normal())
                lhs = np.asarray(A(np.asarray(a * xr + yr_)))
                ok_real = True
            except Exception as e_:
                ok_real = False
                if "Cannot cast" not in str(_innermost(e_)):
                    raise
            if ok_real:
                rhs = a * Axr + Ayr
                checks += 1
                sc = abs(a) * nrm(Axr) + nrm(Ayr) + 1e-3 * (1 + abs(a)) * max(
                    nrm(xr), nrm(yr_), peak) + (1 + abs(a)) * rnd
                e = nrm(lhs - rhs) / sc if sc > 0 else nrm(lhs - rhs)
                obs["linearity_real_input"] = e
                if lhs.shape != rhs.shape or not e <= 2e-4:
                    return violated(sig, "not linear over C on real inputs: ||A(a x + y) - a A(x) "
                                    "- A(y)|| rel %.3g for real x, y and a = %s" % (e, a), wit,
                                    mech="linearity-real-input", obs={"rel": e})
        # the adjoint is an operator of its own: same linearity requirement
        AH = A.H
        u, v = crandn(rng, tuple(A.oshape), cdt), crandn(rng, tuple(A.oshape), cdt)
        STATE.peak = 0.0
        Hu, Hv = np.asarray(AH(u)), np.asarray(AH(v))
        pk = STATE.peak
        for a in (1j, complex(rng.standard_normal(), rng.standard_normal())):
            lhs = np.asarray(AH(np.asarray(a * u + v)))
            rhs = a * Hu + Hv
            checks += 1
            sc = abs(a) * nrm(Hu) + nrm(Hv) + 1e-3 * (1 + abs(a)) * max(nrm(u), nrm(v), pk) \
                + (1 + abs(a)) * rnd
            e = nrm(lhs - rhs) / sc if sc > 0 else nrm(lhs - rhs)
            if not e <= tol:
                return violated(sig, "adjoint not linear over C: ||A^H(a u + v) - a A^H(u) - "
                                "A^H(v)|| rel %.3g for a = %s" % (e, a), wit,
                                mech="linearity-adjoint", obs={"rel": e})
        if not (np.array_equal(x, x0) and np.array_equal(y, y0)):
            return violated(sig, "input array modified by application", wit, mech="mutated")
        # the array an application returns belongs to the caller: overwriting it must not
        # change what the operator does afterwards (no internal buffer / captured parameter
        # handed out); and a rejected application (wrong rank) must leave nothing behind
        for bad_ in (tuple(ish) + (2,), tuple(ish)[:-1], tuple(ish)[1:]):
            try:
                A(np.ones(bad_, cdt))
            except Exception:
                pass
        osh_ = tuple(A.oshape)
        for bad_ in (osh_ + (2,), osh_[:-1], osh_[1:]):
            try:
                A.H(np.ones(bad_, cdt))
            except Exception:
                pass
        r_ = A(x)
        if isinstance(r_, np.ndarray) and r_.flags.writeable and not np.shares_memory(r_, x) \
                and r_ is not Ax:
            r_[...] = np.nan
        # determinism over histories
        outs = [Ax.copy() if np.all(np.isfinite(Ax)) else Ax, np.asarray(A(x.copy()))]
        ref_first = outs[0]
        H = A.H
        N = A.N
        outs.append(np.asarray(A(x)))
        yy = crandn(rng, tuple(A.oshape), cdt)
        h1 = np.asarray(H(yy))
        n1 = np.asarray(N(x))
        outs.append(np.asarray(A(x)))
        # operators derived from A (scalings on either side, sums, differences, compositions
        # with a scaling / with itself, nested scalings) are new objects: building and using
        # them leaves A as it was
        try:
            B1 = A * 3
            derived = [B1, B1 * 2, 0.5 * A, (2 * A) * 1.5, A + A, A - 2 * A, -A, A * (1 + 1j)]
            if list(A.ishape) == list(A.oshape):
                derived += [A * A, (A * 2) * (3 * A)]
            for D_ in derived:
                D_(x)
            B2 = B1 * 3                      # a derived operator derived from once more
            B2(x)
            STATE.peak = 0.0
            b1x = np.asarray(B1(x))
            dev_ = nrm(b1x - 3 * np.asarray(ref_first))
            if not dev_ <= max(1e-9, 100 * dtol) * (nrm(b1x) + 3 * nrm(ref_first) + STATE.peak
                                                    + nrm(x)):
                return violated(sig, "B = A * 3 no longer acts as 3 A after B * 3 was built "
                                "from it (||B x - 3 A x|| = %.3g): a derived operator changed "
                                "the operator it was derived from" % dev_, wit,
                                mech="derived-corrupts-base")
        except Exception:
            pass
        outs.append(np.asarray(A(x)))
        h2 = np.asarray(A.H(yy))
        n2 = np.asarray(A.N(x))
        checks += 3
        ref = outs[0]
        for k, o in enumerate(outs[1:]):
            # (scale incl. 1e-3 ||x||: data that cancels exactly leaves only round-off, which
            # depends on the summation order of a contiguous copy vs a strided original)
            d = nrm(o - ref) / max(nrm(ref), 1e-3 * nrm(x), 1e-300)
            if o.shape != ref.shape or not d <= dtol:
                return violated(sig, "same operator, equal input, different output at "
                                "repetition %d (rel %.3g)" % (k + 1, d), wit,
                                mech="nondeterministic")
        for nm_, p, q in (("A.H", h1, h2), ("A.N", n1, n2)):
            d = nrm(p - q) / max(nrm(p), 1e-300) if nrm(p) > 0 else nrm(p - q)
            if not d <= dtol:
                return violated(sig, "%s applied twice to equal input differs (rel %.3g)" % (
                    nm_, d), wit, mech="nondeterministic")
        # read-only input: a hidden in-place write raises
        xr = x.copy()
        xr.flags.writeable = False
        checks += 1
        try:
            yr = np.asarray(A(xr))
        except Exception as e:
            inn = _innermost(e)
            if "read-only" in str(inn):
                return violated(sig, "application writes into its input: %s" % inn, wit,
                                mech="writes-input")
            raise
        if nrm(yr - ref) > dtol * max(nrm(ref), 1e-3 * nrm(x), 1e-300):
            return violated(sig, "read-only input gives a different result", wit,
                            mech="nondeterministic")
        # non-contiguous view of equal values
        if x.ndim >= 1 and x.size > 1:
            big = np.zeros(tuple(2 * s for s in ish), cdt)
            sl = tuple(slice(None, None, 2) for _ in ish)
            big[sl] = x
            xv = big[sl]
            big0 = big.copy()
            yv = np.asarray(A(xv))
            checks += 1
            if nrm(yv - ref) > dtol * max(nrm(ref), 1e-3 * nrm(x), 1e-300):
                return violated(sig, "non-contiguous view of an equal input gives a "
                                "different result", wit, mech="view")
            if not np.array_equal(big, big0):
                return violated(sig, "application modified the array its strided input "
                                "views", wit, mech="mutated")
    except Exception as e:
        inn = _innermost(e)
        return inconclusive("application raised %s: %s [%s]" % (
            type(inn).__name__, str(inn)[:80], sig[:120]), sig="raised")
    return held(sig, obs, checks, nontrivial)


# --------------------------------------------------------------- functions --

def _snap(args):
    out = []

    def walk(o, path):
        if isinstance(o, np.ndarray):
            out.append((path, o, o.copy()))
        elif isinstance(o, (list, tuple)):
            for i, v in enumerate(o):
                walk(v, "%s[%d]" % (path, i))
        elif isinstance(o, dict):
            for k, v in o.items():
                walk(v, "%s[%r]" % (path, k))
    walk(args, "args")
    return out


def _func_call(fn, rng):
    """Returns (callable, args tuple, kwargs, exclude-paths, argument-class string)."""
    import sigpy as sp
    import sigpy.mri as mr
    cplx = bool(rng.random() < 0.7)
    dt = np.complex128 if cplx else np.float64
    cls = "c" if cplx else "r"

    def arr(shape, d=None):
        return crandn(rng, shape, d or dt)
    nd = int(rng.integers(1, 4))
    shape = [int(rng.integers(2, 7)) for _ in range(nd)]
    if fn in ("fft", "ifft"):
        return getattr(sp, fn), (arr(shape),), {
            "axes": pick(rng, [None, [-1], [-1, 0] if nd >= 2 else [-1], [0]]),
            "center": bool(rng.random() < 0.5)}, (), cls
    if fn in ("nufft", "nufft_adjoint", "toeplitz_psf", "interpolate", "gridding",
              "estimate_shape"):
        g = [int(rng.integers(3, 8)) for _ in range(min(nd, 2))]
        coord = lops.make_coord(int(rng.integers(1 << 30)), [7], g,
                                pick(rng, ["inside", "outside", "ties"]))
        if fn == "nufft":
            return sp.nufft, (arr(g, np.complex128), coord), {}, (), cls
        if fn == "nufft_adjoint":
            return sp.nufft_adjoint, (arr([7], np.complex128), coord, g), {}, (), cls
        if fn == "toeplitz_psf":
            return sp.toeplitz_psf, (coord, g), {}, (), cls
        if fn == "estimate_shape":
            return sp.estimate_shape, (coord,), {}, (), cls
        kern = pick(rng, ["spline", "kaiser_bessel"])
        kw = {"kernel": kern, "width": float(pick(rng, [2, 3, 4])),
              "param": 1 if kern == "spline" else 5.0}
        if fn == "interpolate":
            return sp.interpolate, (arr(g), coord), kw, (), cls + kern
        return sp.gridding, (arr([7]), coord, g), kw, (), cls + kern
    if fn in ("convolve", "convolve_data_adjoint", "convolve_filter_adjoint"):
        D = min(nd, 2)
        m = [int(rng.integers(2, 6)) for _ in range(D)]
        n = [int(rng.integers(1, a + 1)) for a in m]
        mode = pick(rng, ["full", "valid"])
        p = lops.conv_out(m, n, [1] * D, mode)
        if fn == "convolve":
            return sp.convolve, (arr(m), arr(n)), {"mode": mode}, (), cls + mode
        if fn == "convolve_data_adjoint":
            return sp.convolve_data_adjoint, (arr(p), arr(n), m), {"mode": mode}, (), cls + mode
        return sp.convolve_filter_adjoint, (arr(p), arr(m), n), {"mode": mode}, (), cls + mode
    if fn in ("array_to_blocks", "blocks_to_array"):
        D = min(nd, 3)
        N = shape[:D]
        b = [int(rng.integers(1, n + 1)) for n in N]
        s = [int(rng.integers(1, bb + 2)) for bb in b]
        nb = [(n - bb + ss) // ss for n, bb, ss in zip(N, b, s)]
        if fn == "array_to_blocks":
            return sp.array_to_blocks, (arr(N), b, s), {}, (), cls
        return sp.blocks_to_array, (arr(nb + b), N, b, s), {}, (), cls
    if fn in ("fwt", "iwt"):
        wave = pick(rng, ["haar", "db2", "db4"])
        if fn == "fwt":
            return sp.fwt, (arr(shape),), {"wave_name": wave}, (), cls + wave
        osh, slices = sp.wavelet.get_wavelet_shape(shape, wave_name=wave)
        return sp.iwt, (arr(osh), shape, slices), {"wave_name": wave}, (), cls + wave
    if fn in ("soft_thresh", "hard_thresh"):
        lam = float(rng.random()) if rng.random() < 0.6 else np.abs(arr(shape, np.float64))
        return getattr(sp, fn), (lam, arr(shape)), {}, (), cls + ("s" if np.isscalar(lam)
                                                                   else "a")
    if fn == "l1_proj":
        return sp.l1_proj, (float(rng.random() * 5), arr(shape)), {}, (), cls
    if fn == "l2_proj":
        return sp.l2_proj, (float(rng.random() * 3), arr(shape)), {}, (), cls
    if fn == "linf_proj":
        b = None if rng.random() < 0.5 else arr(shape)
        return sp.linf_proj, (float(rng.random()), arr(shape)), {"bias": b}, (), \
            cls + ("b" if b is not None else "")
    if fn == "psd_proj":
        n = int(rng.integers(1, 6))
        return sp.psd_proj, (arr([n, n]),), {}, (), cls
    if fn == "resize":
        return sp.resize, (arr(shape), [max(1, s + int(rng.integers(-2, 3))) for s in shape]), \
            {}, (), cls
    if fn == "flip":
        return sp.flip, (arr(shape),), {
            "axes": pick(rng, [None, [0], [-1, 0] if nd >= 2 else [-1], [-1]])}, (), cls
    if fn == "circshift":
        return sp.circshift, (arr(shape), [int(rng.integers(-3, 4)) for _ in shape]), {}, (), cls
    if fn == "downsample":
        return sp.downsample, (arr(shape), [int(rng.integers(1, 3)) for _ in shape]), {}, (), cls
    if fn == "upsample":
        f = [int(rng.integers(1, 3)) for _ in shape]
        return sp.upsample, (arr(shape), [s * ff for s, ff in zip(shape, f)], f), {}, (), cls
    if fn == "rss":
        return sp.rss, (arr([3] + shape),), {}, (), cls
    if fn == "vec":
        return sp.vec, ([arr(shape), arr([3])],), {}, (), cls
    if fn == "split":
        n = int(np.prod(shape))
        return sp.split, (arr([n + 3]), [shape, [3]]), {}, (), cls
    if fn == "leja":
        return sp.leja, (arr([int(rng.integers(2, 8))], np.complex128),), {}, (), cls
    if fn == "monte_carlo_sure":
        lam = float(rng.random())
        return sp.monte_carlo_sure, ((lambda v: sp.soft_thresh(lam, v)), arr(shape), 0.1), \
            {}, (), cls
    if fn in ("axpy", "xpay"):
        a = float(rng.standard_normal()) if rng.random() < 0.5 else arr(shape)
        return getattr(sp, fn), (arr(shape), a, arr(shape)), {}, ("args[0]",), cls
    if fn == "get_cov":
        return mr.util.get_cov, (arr([3] + shape),), {}, (), cls
    if fn == "whiten":
        G = arr([3, 3], np.complex128)
        cov = G @ G.conj().T + 3 * np.eye(3)
        if rng.random() < 0.4:
            # uncorrelated channels of unequal noise power: an exactly diagonal covariance
            cov = np.diag(rng.uniform(0.5, 4.0, 3)).astype(
                np.complex128 if rng.random() < 0.5 else np.float64)
            cls += "|diag-cov"
        return mr.util.whiten, (arr([3] + shape, np.complex128), cov), {}, (), cls
    if fn in ("tseg_off_res_b_ct", "apply_tseg"):
        dim = 6
        b0 = np.abs(arr([dim, dim], np.float64)) * 50
        nt = 12
        if fn == "tseg_off_res_b_ct":
            return mr.util.tseg_off_res_b_ct, (b0, 6, 2, 4e-6, nt * 4e-6), {}, (), "r"
        b, ct = mr.util.tseg_off_res_b_ct(b0, 6, 2, 4e-6, nt * 4e-6)
        coord = lops.make_coord(int(rng.integers(1 << 30)), [nt], [dim, dim], "inside") / 20
        return mr.util.apply_tseg, (arr([dim, dim], np.complex128), coord, b, ct), \
            {"fwd": bool(rng.random() < 0.5)}, (), "c"
    if fn == "to_device":
        return sp.to_device, (arr(shape),), {}, (), cls
    if fn == "copyto":
        return sp.copyto, (arr(shape), arr(shape)), {}, ("args[0]",), cls
    raise ValueError(fn)


def run_func(case):
    rng = np.random.default_rng(case["fseed"])
    fn = case["fn"]
    f, args, kwargs, exclude, cls = _func_call(fn, rng)
    if case["fseed"] % 2:
        # integer-sequence arguments (axes, shapes, shifts, factors, block sizes) handed over as
        # NumPy integer arrays: arrays passed to the function like any other - never modified
        def arrayify(o):
            if isinstance(o, list) and o and all(isinstance(v, (int, np.integer)) and
                                                 not isinstance(v, bool) for v in o):
                return np.asarray(o, dtype=np.int64)
            return o
        args = tuple(arrayify(a_) for a_ in args)
        kwargs = {k_: arrayify(v_) for k_, v_ in kwargs.items()}
        cls += "|intarr"
    sig = "func|%s|%s" % (fn, cls)
    snaps = _snap([list(args), kwargs])
    # make one array argument read-only in half of the cases: a hidden write then raises
    ro = None
    cands = [s for s in snaps if not any(s[0].startswith("args[0]" + e[4:]) for e in exclude)]
    if cands and rng.random() < 0.5:
        ro = cands[int(rng.integers(len(cands)))]
        ro[1].flags.writeable = False
    try:
        f(*args, **kwargs)
    except Exception as e:
        inn = _innermost(e)
        if "read-only" in str(inn):
            return violated(sig, "%s writes into its argument %s (read-only array): %s" % (
                fn, ro[0] if ro else "?", inn), {"fn": fn, "fseed": case["fseed"]},
                mech="func-mutates:" + fn)
        return inconclusive("%s raised %s: %s" % (fn, type(inn).__name__, str(inn)[:100]),
                            sig="func-raised")
    for path, a, a0 in snaps:
        if any(path.startswith("args[0]" + e[4:]) for e in exclude):
            continue
        same = (a.shape == a0.shape) and np.array_equal(a, a0, equal_nan=True)
        if not same:
            return violated(sig, "%s modified its argument %s" % (fn, path),
                            {"fn": fn, "fseed": case["fseed"], "arg": path},
                            mech="func-mutates:" + fn)
    checks = len(snaps)
    if fn not in ("monte_carlo_sure",) and not exclude:
        # (a) histories that start with a failure: the same function is first called with
        # arguments it must reject (no array at all; a second array operand whose shape does
        # not fit), then with the valid arguments - whatever the failed calls left behind
        # must not change the valid result;  (b) the returned array is the caller's: filling
        # it with garbage must not change what the next identical call returns (no internal
        # buffer, cached output or captured parameter handed out)
        def arrays(o):
            if isinstance(o, np.ndarray):
                return [o]
            if isinstance(o, (list, tuple)):
                return [a_ for v in o for a_ in arrays(v)]
            return []
        try:
            r1 = f(*args, **kwargs)
        except Exception:
            r1 = None
        keep = [a_.copy() for a_ in arrays(r1)]
        if keep:
            ia = [i for i, a_ in enumerate(args) if isinstance(a_, np.ndarray)]
            for bad in ([None if i == ia[0] else a_ for i, a_ in enumerate(args)] if ia else None,
                        [a_[..., :-1] if (len(ia) > 1 and i == ia[1] and a_.ndim
                                          and a_.shape[-1] > 1) else a_
                         for i, a_ in enumerate(args)] if len(ia) > 1 else None):
                if bad is None:
                    continue
                try:
                    f(*bad, **kwargs)
                except Exception:
                    pass
            ins = [a_ for a_ in arrays([list(args), list(kwargs.values())])]
            for a_ in arrays(r1):
                if a_.flags.writeable and not any(np.shares_memory(a_, b_) for b_ in ins):
                    a_[...] = 7 if a_.dtype.kind in "iub" else np.nan
            try:
                r2 = f(*args, **kwargs)
            except Exception as e:
                inn = _innermost(e)
                return violated(sig, "%s raised %s on valid arguments after rejected calls / "
                                "after its earlier result was overwritten: %s" % (
                                    fn, type(inn).__name__, str(inn)[:150]),
                                {"fn": fn, "fseed": case["fseed"]}, mech="func-history:" + fn)
            got = arrays(r2)
            checks += 1
            if len(got) != len(keep) or not all(
                    g_.shape == k_.shape and np.array_equal(g_, k_, equal_nan=True)
                    for g_, k_ in zip(got, keep)):
                return violated(sig, "%s returns something else for identical arguments after "
                                "rejected calls and after the caller overwrote the array it "
                                "got from the first call" % fn,
                                {"fn": fn, "fseed": case["fseed"]}, mech="func-history:" + fn)
    if fn not in ("monte_carlo_sure",) and not exclude:
        # (c) the caller updates an array argument IN PLACE (new values in the same buffer) and
        # calls again with the same objects: the result must be the one for the new values -
        # i.e. equal to a call on fresh copies - nothing derived from an argument may be
        # remembered by the identity of the array object
        import copy
        fl = [a_ for a_ in arrays([list(args), list(kwargs.values())])
              if a_.dtype.kind in "fc" and a_.flags.writeable and a_.size]
        if fl:
            try:
                f(*args, **kwargs)
                for a_ in fl:
                    a_ *= a_.dtype.type(-0.5)
                    a_.reshape(-1)[::2] += a_.dtype.type(0.25)
                r_same = f(*args, **kwargs)
                r_fresh = f(*copy.deepcopy(args), **copy.deepcopy(kwargs))
            except Exception:
                r_same = r_fresh = None
            if r_same is not None:
                gs, gf = arrays(r_same), arrays(r_fresh)
                checks += 1
                if len(gs) != len(gf) or not all(
                        u.shape == v.shape and np.allclose(u, v, rtol=1e-10, atol=0,
                                                           equal_nan=True)
                        for u, v in zip(gs, gf)):
                    return violated(sig, "%s: after the caller changed an argument array in "
                                    "place, a call with the same objects differs from a call on "
                                    "fresh copies of the same values (something derived from the "
                                    "old contents was remembered)" % fn,
                                    {"fn": fn, "fseed": case["fseed"]},
                                    mech="func-stale-argument:" + fn)
    return held(sig, {"arrays_checked": len(snaps)}, checks, len(snaps) > 0)


# ------------------------------------------------------------------- prox --

def make_prox(name, rng, shape=None, cplx=True):
    import sigpy as sp
    PR = sp.prox
    dt = np.complex128 if cplx else np.float64
    shape = shape or [int(rng.integers(1, 5)) for _ in range(int(rng.integers(1, 3)))]
    lam = float(10 ** rng.uniform(-2, 1))

    def arr(s=shape, d=dt):
        return crandn(rng, s, d)
    if name == "L1Reg":
        return PR.L1Reg(shape, lam), shape
    if name == "L2Reg":
        return PR.L2Reg(shape, lam), shape
    if name == "L2Reg-y":
        return PR.L2Reg(shape, lam, y=arr()), shape
    if name == "L2Reg-proxh":
        return PR.L2Reg(shape, lam, y=arr(), proxh=PR.L1Reg(shape, lam / 2)), shape
    if name == "L2Proj":
        return PR.L2Proj(shape, lam), shape
    if name == "L2Proj-y":
        return PR.L2Proj(shape, lam, y=arr()), shape
    if name == "LInfProj":
        return PR.LInfProj(shape, lam), shape
    if name == "LInfProj-bias":
        return PR.LInfProj(shape, lam, bias=arr()), shape
    if name == "L1Proj":
        return PR.L1Proj(shape, lam), shape
    if name == "PsdProj":
        n = int(rng.integers(1, 5))
        return PR.PsdProj([n, n]), [n, n]
    if name == "BoxConstraint":
        return PR.BoxConstraint(shape, -lam, lam), shape
    if name == "BoxConstraint-arr":
        lo = -np.abs(arr(shape, np.float64))
        return PR.BoxConstraint(shape, lo, lo + 1.0), shape
    if name == "Conj":
        inner_ = pick(rng, ["L1Reg", "L2Reg-y", "L2Proj", "LInfProj-bias"])
        p, s = make_prox(inner_, rng, shape, cplx)
        return PR.Conj(p), s
    if name in ("Stack", "Stack-alpha"):
        p1, s1 = make_prox("L1Reg", rng, None, cplx)
        p2, s2 = make_prox("L2Reg-y", rng, None, cplx)
        st = PR.Stack([p1, p2])
        return st, list(st.shape)
    if name == "UnitaryTransform":
        A = sp.linop.FFT(shape)
        return PR.UnitaryTransform(PR.L1Reg(shape, lam), A), shape
    if name == "NoOp":
        return PR.NoOp(shape), shape
    raise ValueError(name)


def run_prox(case):
    rng = np.random.default_rng(case["fseed"])
    name = case["prox"]
    cplx = name not in ("BoxConstraint", "BoxConstraint-arr") and bool(rng.random() < 0.7)
    P, shape = make_prox(name, rng, None, cplx)
    sig = "prox|%s|%s" % (name, "c" if cplx else "r")
    x = crandn(rng, shape, np.complex128 if cplx else np.float64)
    x0 = x.copy()
    if name == "Stack-alpha" or (case["fseed"] % 3 == 0 and not name.startswith("Stack")
                                 and "Psd" not in name):
        # element-wise step sizes (prox.Stack hands views of one array to its members, the
        # primal-dual solver passes arrays): an argument like the input
        alpha = np.abs(crandn(rng, shape, np.float64)) + 0.1
        sig += "|alpha-array"
    else:
        alpha = float(10 ** rng.uniform(-2, 1))
    a0 = np.copy(alpha)
    ro = bool(rng.random() < 0.5)
    if ro:
        x.flags.writeable = False
    try:
        P(alpha, x)
    except Exception as e:
        inn = _innermost(e)
        if "read-only" in str(inn):
            return violated(sig, "%s writes into its input: %s" % (name, inn),
                            {"prox": name, "fseed": case["fseed"]},
                            mech="prox-mutates:" + name)
        return inconclusive("prox %s raised %s: %s" % (name, type(inn).__name__,
                                                       str(inn)[:100]), sig="prox-raised")
    if not np.array_equal(x, x0) or not np.array_equal(alpha, a0):
        return violated(sig, "%s modified its input or alpha" % name,
                        {"prox": name, "fseed": case["fseed"]}, mech="prox-mutates:" + name)
    return held(sig, {}, 1)


# -------------------------------------------------------------- consumers --

def run_consumer(case):
    """Solver / app runs under the always-on mutation hooks; additionally the caller's
    data arrays must hold the same bytes after the run."""
    import sigpy as sp
    import sigpy.mri as mr
    rng = np.random.default_rng(case["fseed"])
    which = case["which"]
    sig = "consumer|" + which
    n, m = 6, 9
    M = crandn(rng, [m, n]) / 3
    A = sp.linop.MatMul([n, 1], M)
    y = crandn(rng, [m, 1])
    z = crandn(rng, [n, 1])
    keep = {"y": (y, y.copy()), "z": (z, z.copy()), "M": (M, M.copy())}
    kw = dict(show_pbar=False, max_iter=12)
    L = sp.app.LinearLeastSquares
    if which == "lls-cg":
        L(A, y, lamda=0.1, **kw).run()
    elif which == "lls-cg-z":
        L(A, y, lamda=0.1, z=z, **kw).run()
    elif which == "lls-gm":
        L(A, y, proxg=sp.prox.L1Reg([n, 1], 0.05), lamda=0.1, z=z, **kw).run()
    elif which == "lls-pdhg":
        L(A, y, proxg=sp.prox.L1Reg([n, 1], 0.05), solver="PrimalDualHybridGradient",
          **kw).run()
    elif which == "lls-pdhg-G":
        G = sp.linop.FiniteDifference([n, 1], axes=[0])
        L(A, y, proxg=sp.prox.L1Reg(G.oshape, 0.05), G=G, **kw).run()
    elif which == "lls-admm":
        L(A, y, proxg=sp.prox.L1Reg([n, 1], 0.05), solver="ADMM", lamda=0.1, z=z,
          max_cg_iter=3, **kw).run()
    elif which == "lls-admm-identity":
        yi = crandn(rng, [n])
        keep["yi"] = (yi, yi.copy())
        G = sp.linop.FiniteDifference([n])
        L(sp.linop.Identity([n]), yi, proxg=sp.prox.L1Reg(G.oshape, 0.05), G=G,
          solver="ADMM", max_cg_iter=3, **kw).run()
    elif which == "maxeig":
        sp.app.MaxEig(A.N, dtype=np.complex128, show_pbar=False, max_iter=10).run()
    elif which in ("sense-recon", "l1wav-recon", "tv-recon"):
        mps = crandn(rng, [3, 8, 8])
        ksp = crandn(rng, [3, 8, 8])
        keep.update(mps=(mps, mps.copy()), ksp=(ksp, ksp.copy()))
        if which == "sense-recon":
            mr.app.SenseRecon(ksp, mps, lamda=0.01, show_pbar=False, max_iter=6).run()
        elif which == "l1wav-recon":
            mr.app.L1WaveletRecon(ksp, mps, 0.01, show_pbar=False, max_iter=6).run()
        else:
            mr.app.TotalVariationRecon(ksp, mps, 0.01, show_pbar=False, max_iter=6).run()
    changed = [k for k, (a, a0) in keep.items() if not np.array_equal(a, a0)]
    obs = {"caller_arrays_changed": changed}
    # Mutation of caller data by an App is reported as an observation here; the deciding
    # monitors for C02 are the operator / prox hooks, whose events the worker attaches.
    return held(sig, obs, 1)


# ---------------------------------------------------------------- history --

def run_history(case):
    """Runs in a fresh interpreter: thresholding functions and L1Reg on a real input, either
    before or after complex calls.  Returns values + dtypes in obs; the parent-side pairing
    is done here by recomputing the reference order in-process: real-first results are
    what a fresh process gives, so each order is compared with the fixed expectations
    (value from the definition, dtype == input dtype)."""
    import sigpy as sp
    rng = np.random.default_rng(case["fseed"])
    xr = rng.standard_normal(7)
    xc = crandn(rng, [7])
    lam = 0.3
    if case["order"] == "complex-first":
        sp.soft_thresh(lam, xc)
        sp.hard_thresh(lam, xc)
        sp.prox.L1Reg([7], lam)(1.0, xc)
        sp.linf_proj(lam, xc)
        sp.l1_proj(1.0, xc)
    sig = "history|" + case["order"]
    exp_soft = np.sign(xr) * np.maximum(np.abs(xr) - lam, 0)
    exp_hard = np.where(np.abs(xr) > lam, xr, 0)
    got = {
        "soft_thresh": (sp.soft_thresh(lam, xr), exp_soft),
        "hard_thresh": (sp.hard_thresh(lam, xr), exp_hard),
        "L1Reg": (sp.prox.L1Reg([7], lam)(1.0, xr), exp_soft),
        "linf_proj": (sp.linf_proj(lam, xr), xr - exp_soft),
    }
    for k, (g, e) in got.items():
        if not np.allclose(g, e, rtol=0, atol=1e-14):
            return violated(sig, "%s on a real input differs from its definition after "
                            "history %s" % (k, case["order"]), {"order": case["order"]},
                            mech="history-value:" + k)
        if g.dtype != xr.dtype:
            return violated(sig, "%s on a float64 input returned dtype %s after history %s: "
                            "the output depends on earlier calls in the process" % (
                                k, g.dtype, case["order"]), {"order": case["order"]},
                            mech="history-dtype:" + k)
    return held(sig, {k: str(v[0].dtype) for k, v in got.items()}, len(got))


def run_kept(case):
    import sigpy as sp
    L = sp.linop
    rng = rng_for(case)
    shape = tuple(case["shape"])
    A, B, C, D = [lops.build(d) for d in case["leaves"]]
    base = case["base"]
    S = {"Add": lambda: A + B, "Sub": lambda: A - B, "Compose": lambda: A * B,
         "Scale": lambda: (2.0 - 0.5j) * A, "Hstack": lambda: L.Hstack([A, B], axis=0),
         "Vstack": lambda: L.Vstack([A, B], axis=0),
         "Diag": lambda: L.Diag([A, B], iaxis=0, oaxis=0)}[base]()
    sig = "kept|%s|%dd" % (base, len(shape))
    wit = dict(case)
    x = crandn(rng, tuple(S.ishape))
    y = crandn(rng, tuple(S.oshape))
    SH, SN = S.H, S.N

    def snapshot():
        return [np.array(S(x)), np.array(S.H(y)), np.array(SH(y)), np.array(S.N(x)),
                np.array(SN(x)), repr(S), [int(v) for v in S.ishape], [int(v) for v in S.oshape]]
    first = snapshot()
    endo = list(S.ishape) == list(S.oshape) == list(shape)
    builders = [
        ("S + C", lambda: (S + C) if endo else (S + S)),
        ("C + S", lambda: (C + S) if endo else (S + S)),
        ("S - D", lambda: (S - D) if endo else (S - S)),
        ("S * C and D * S", lambda: ((S * C, D * S) if endo else (S * L.Identity(S.ishape),))),
        ("3 * S and S * (1 - 2j)", lambda: (3 * S, S * (1 - 2j))),
        ("Vstack([S, S]) and Hstack([S, S])", lambda: (L.Vstack([S, S]), L.Hstack([S, S]))),
        ("(S + S).H and (S * 2).N", lambda: ((S + S).H, (S * 2).N)),
    ]
    n = 0
    for j in case["order"]:
        tag, f = builders[j]
        try:
            out = f()
            for t in (out if isinstance(out, tuple) else (out,)):
                t(crandn(rng, tuple(t.ishape)))           # use the new expression once
        except Exception as e:
            inn = _innermost(e)
            return violated(sig, "building / applying %s from a kept expression raised %s: %s"
                            % (tag, type(inn).__name__, str(inn)[:150]), wit,
                            mech="kept-raised:" + base)
        now = snapshot()
        n += 1
        names = ["S(x)", "S.H(y)", "the S.H obtained earlier", "S.N(x)",
                 "the S.N obtained earlier", "repr(S)", "S.ishape", "S.oshape"]
        for nm_, a_, b_ in zip(names, first, now):
            same = np.array_equal(a_, b_) if isinstance(a_, np.ndarray) else a_ == b_
            if not same:
                return violated(sig, "after %s was built from the kept expression S = %s, %s "
                                "is no longer what it was for the same input" % (tag, base, nm_),
                                wit, mech="kept:" + base)
    return held(sig, {"rebuilds": n}, n * 8, True)


def _overflow_guard(case, res, runner, is_single, to_double):
    """A violation that shows NaN/inf in a single-precision case may be float32 overflow
    (un-normalised kernel weights applied several times): decide the same case in double
    precision; if it holds there the single-precision run says nothing either way."""
    why = str(res.get("why", ""))
    if res.get("verdict") == "violated" and is_single and ("nan" in why or "inf" in why):
        r64 = runner(to_double)
        if r64.get("verdict") == "held":
            return {"verdict": "inconclusive", "sig": "c64-overflow", "nontrivial": False,
                    "why": "single-precision overflow (holds in double precision): " + why[:120]}
        return r64
    return res


def run_case(case):
    if case["gen"] == "repo-tests":
        return repo_tests.run("C02")
    g = case["gen"]
    if g == "kept":
        return run_kept(case)
    if g.startswith("lin:") or g.startswith("lin-big:"):
        return _overflow_guard(case, run_lin(case), run_lin, sum(case["rs"]) % 5 == 0,
                               dict(case, force_double=True))
    if g == "func":
        return run_func(case)
    if g == "prox":
        return run_prox(case)
    if g == "consumer":
        return run_consumer(case)
    if g == "history":
        return run_history(case)
    raise ValueError(g)
