"""C14 - LinearLeastSquares returns the documented minimiser whatever the solver.

Deciding monitor: reference-model comparison of the documented objective
  Phi(x) = 0.5||A x - y||^2 + g(G x) + lamda/2 ||x - z||^2
(evaluated by the harness from dense matrices of A and G obtained once through the real
operators) at the x the real App returns, against a certified optimum: closed form / FISTA
with prox-gradient certificate (G None), or dense ADMM in the harness with a Fenchel duality
gap <= 1e-10 (G given).  Verdict per (configuration, solver):
  Phi(x_returned) - Phi* <= tol_solver * max(1, |Phi*|)
with tol_solver reflecting the iteration budget (1e-8 CG, 1e-5 GradientMethod / PDHG,
1e-4 ADMM); a constructor or run() that raises counts as rejection, acceptable only for the
combinations the documentation excludes (ConjugateGradient with proxg, GradientMethod with
G); raising for a supported combination or silently returning the minimiser of another
problem is a violation.
"""
import numpy as np

from vf.common import Plan, crandn, held, violated, inconclusive, rng_for, nrm, pick
from vf.oracles import opt as OPT

SPEC = {
    "rule": ("cases = one (A class, lamda, z, proxg, G, solver, parameter-given-or-defaulted, "
             "initial x, dtype) configuration each, over the cross product in the property's "
             "quantifier; distinct = that signature; non-trivial = every case (n >= 2 unknowns)"),
    "boundscheck": {"quick": False, "thorough": False},
    "case_timeout": 400.0,
    "deciding_monitors": ["run:LinearLeastSquares", "in:layout:strided", "in:readonly"],
    "assumptions": ["generated problems have cond(A^H A + lamda I (+ rho G^H G)) <= 1e2 so that "
                    "the stated iteration budgets reach the stated objective tolerance",
                    "box constraints only without G (g(Gx) needs feasibility of G x)"],
}

SOLVERS = ["ConjugateGradient", "GradientMethod", "PrimalDualHybridGradient", "ADMM", None]
TOL = {"ConjugateGradient": 1e-8, "GradientMethod": 1e-5, "PrimalDualHybridGradient": 1e-5,
       "ADMM": 1e-4}
ITERS = {"ConjugateGradient": 100, "GradientMethod": 5000,
         "PrimalDualHybridGradient": 8000, "ADMM": 1500}


def plan(tier, seed):
    P = Plan(14, seed)
    quick = tier == "quick"
    rng = P.rng("lls")
    for i in range(300 if quick else 5000):
        proxg = pick(rng, ["none", "l1", "l2", "box"])
        G = pick(rng, ["none", "none", "square", "tall", "fd", "identity", "reshape"])
        Akind = pick(rng, ["tall", "tall", "square", "identity", "diag", "fftdiag", "fft"])
        if proxg == "box":
            G = "none"
            if Akind in ("fftdiag", "fft"):   # box constraints are only defined for real data
                Akind = "diag"
        P.add("lls", n=int(rng.integers(2, 8)) if i % 10 != 9 else int(rng.integers(16, 33)),
              A=Akind,
              cplx=bool(proxg != "box" and rng.random() < 0.5),
              lam=pick(rng, [0.0, 0.0, "pos"]), z=bool(rng.random() < 0.5), proxg=proxg, G=G,
              solver=pick(rng, SOLVERS), P=bool(rng.random() < 0.3),
              alpha=bool(rng.random() < 0.4), tau=pick(rng, ["none", "none", "tau", "sigma",
                                                             "both", "sigma-arr"]),
              rho=pick(rng, [1, 1, 0.3, 3.0]), x0=bool(rng.random() < 0.4),
              acc=bool(rng.random() < 0.7), ascale=pick(rng, [1, 1, 1, 1e-8, 1e-4, 1e4]))
        if i % 12 == 5:
            # python -O: "combinations a solver cannot handle raise an error" must not rest on
            # assert statements
            P.cases[-1]["pyopt"] = True
    # underdetermined systems (more unknowns than equations, lamda = 0): the minimisers are not
    # unique but the optimal value is (0 for a full-row-rank A): every solver returns a point
    # with that value.  Directed, every run: the default solver (ConjugateGradient) with the
    # default budget is the known finding C14/cg-singular-normal-operator-diverges
    rngw = P.rng("lls-wide")
    for i in range(10 if tier == "quick" else 120):
        solver = [None, "ConjugateGradient", "GradientMethod", "PrimalDualHybridGradient",
                  "ADMM"][i % 5]
        P.add("lls-wide", m=int(rngw.integers(2, 6)), extra=int(rngw.integers(1, 4)),
              cplx=bool(rngw.random() < 0.5), solver=solver,
              max_iter=int(pick(rngw, [100, 100, 300])) if solver in (None, "ConjugateGradient")
              else 4000, wseed=int(rngw.integers(1 << 30)))
    # operators for which the constant vector is an exact eigenvector of A^H A (+ G^H G) for
    # a non-dominant eigenvalue (identity, circular convolution, with / without a
    # finite-difference G), solved with defaulted step sizes
    rng = P.rng("lls-struct")
    for i in range(24 if quick else 300):
        G = pick(rng, ["none", "fd", "fd"])
        proxg = pick(rng, ["l1", "l2"]) if G == "fd" else pick(rng, ["none", "l1", "l2"])
        P.add("lls-struct", n=int(rng.integers(3, 9)), A=pick(rng, ["identity", "circulant"]),
              cplx=True, lam=pick(rng, [0.0, "pos"]), z=False, proxg=proxg, G=G,
              solver=pick(rng, [None, "GradientMethod", "PrimalDualHybridGradient"])
              if G == "none" else pick(rng, [None, "PrimalDualHybridGradient"]),
              P=False, alpha=False, tau="none", rho=1, x0=False, acc=bool(rng.random() < 0.5),
              ascale=1)
    # operator-scale sweep on pure least squares (every solver, with and without lamda / z):
    # eigenvalues of A^H A from 1e-16 to 1e+8
    rng = P.rng("lls-scale")
    for i in range(40 if quick else 600):
        P.add("lls-scale", n=int(rng.integers(2, 8)), A=pick(rng, ["tall", "square", "diag"]),
              cplx=bool(rng.random() < 0.5), lam=pick(rng, [0.0, 0.0, "pos"]),
              z=bool(rng.random() < 0.5), proxg="none", G="none",
              solver=pick(rng, [None, "ConjugateGradient", "ConjugateGradient"] + SOLVERS),
              P=bool(rng.random() < 0.3),
              alpha=bool(rng.random() < 0.4), tau=pick(rng, ["none", "none", "tau", "sigma",
                                                             "both", "sigma-arr"]),
              rho=pick(rng, [1, 1, 0.3, 3.0]), x0=bool(rng.random() < 0.4),
              acc=bool(rng.random() < 0.7), ascale=pick(rng, [1e-8, 1e-6, 1e-4, 1e4]))
    return P.cases


def dense(A):
    ish = tuple(A.ishape)
    n = int(np.prod(ish))
    cols = []
    for j in range(n):
        e = np.zeros(n, np.complex128)
        e[j] = 1
        cols.append(np.asarray(A(e.reshape(ish))).ravel())
    return np.stack(cols, axis=1)


def run_wide(case):
    import sigpy as sp
    rng = np.random.default_rng(case["wseed"])
    m, n = case["m"], case["m"] + case["extra"]
    dt = np.complex128 if case["cplx"] else np.float64
    M = crandn(rng, [m, n], dt)
    y = crandn(rng, [m, 1], dt)
    if np.linalg.cond(M) > 8:
        # (the first-order solvers converge sublinearly here, at a rate set by the smallest
        # singular value: only well-conditioned systems fit an iteration budget)
        return inconclusive("generated matrix too ill-conditioned for an iteration budget",
                            sig="lls-wide-illcond")
    A = sp.linop.MatMul([n, 1], M)
    solver = case["solver"]
    sig = "lls-wide|%s|%s" % (solver, "c" if case["cplx"] else "r")
    wit = dict(case)
    try:
        mi_ = case["max_iter"] * (8 if case.get("_more") else 1)
        x = sp.app.LinearLeastSquares(A, y, solver=solver, max_iter=mi_, show_pbar=False).run()
    except Exception as e:
        return violated(sig, "underdetermined least squares (%d x %d, lamda = 0) raised %s" % (
            m, n, type(e).__name__), wit, mech="wide-raised")
    val = 0.5 * float(np.sum(np.abs(M @ x - y) ** 2))
    scale = 0.5 * float(np.sum(np.abs(y) ** 2))
    obs = {"objective": val, "norm_x": nrm(x), "m": m, "n": n}
    tol_ = 1e-8 if solver in (None, "ConjugateGradient", "ADMM") else 1e-4
    if not (np.all(np.isfinite(x)) and val <= tol_ * scale) and not case.get("_more") and \
            solver in ("GradientMethod", "PrimalDualHybridGradient", "ADMM") and \
            np.all(np.isfinite(x)) and val <= 0.2 * scale:
        return run_wide(dict(case, _more=True))     # small miss: decide with 8x the budget
    if not (np.all(np.isfinite(x)) and val <= tol_ * scale):
        return violated(sig, "underdetermined system %d x %d, lamda = 0: the optimal value is 0 "
                        "but the returned x has objective %.3g (||x|| = %.3g) with solver %s "
                        "after max_iter=%d" % (m, n, val, nrm(x), solver, case["max_iter"]),
                        wit, mech="wide-suboptimal:" + str(solver), obs=obs)
    return held(sig, obs, 1, True)


def run_case(case):
    if case["gen"] == "lls-wide":
        return run_wide(case)
    import sigpy as sp
    rng = rng_for(case)
    n, cplx = case["n"], case["cplx"]
    dt = np.complex128 if cplx else np.float64
    L = sp.linop
    # ---- forward operator
    kindA = case["A"]
    # operator scale (pure least squares only): min 1/2||s A x - y||^2 + lamda s^2/2 ||x - z/s||^2
    # has the same optimal value as the unscaled problem and the minimiser x/s
    asc = float(case.get("ascale", 1.0))
    if not (case["proxg"] == "none" and case["G"] == "none" and kindA in ("tall", "square",
                                                                          "diag")):
        asc = 1.0
    if kindA in ("tall", "square"):
        m = n + (int(rng.integers(1, 4)) if kindA == "tall" else 0)
        U, _ = np.linalg.qr(crandn(rng, [m, m], dt))
        V, _ = np.linalg.qr(crandn(rng, [n, n], dt))
        sv = np.geomspace(1.0, 0.2, n)
        M = (U[:, :n] * sv) @ V.conj().T * float(10 ** rng.uniform(-0.3, 0.3)) * asc
        xshape = [n, 1]
        A = L.MatMul(xshape, M)
    elif kindA == "identity":
        xshape = [n]
        A = L.Identity(xshape)
    elif kindA == "diag":
        xshape = [n]
        A = L.Multiply(xshape, (0.3 + rng.random(n)).astype(dt) * (
            np.exp(1j * rng.random(n)) if cplx else 1) * asc)
    elif kindA == "fft":
        xshape = [n]
        A = L.FFT(xshape)                 # A.N is the Identity shortcut
        cplx = True
        dt = np.complex128
    elif kindA == "circulant":
        # circular convolution F^H D F: the constant vector is an exact eigenvector of A^H A
        # (for a non-dominant eigenvalue) - step sizes estimated from a structured start
        # vector would be wrong
        xshape = [n]
        dvals = 0.3 + rng.random(n)
        dvals[0] = 0.3
        A = L.IFFT(xshape, center=False) * L.Multiply(xshape, dvals.astype(np.complex128)) * \
            L.FFT(xshape, center=False)
        cplx = True
        dt = np.complex128
    else:
        xshape = [n]
        A = L.FFT(xshape) * L.Multiply(xshape, (0.3 + rng.random(n)).astype(dt))
        cplx = True
        dt = np.complex128
    if cplx and sum(case["rs"]) % 4 == 2 and case["proxg"] != "box":
        # a complex scalar in front of the forward operator (a global phase / gain): the
        # normal operator carries |c|^2, not c^2
        cfac = complex(0.6, 0.8) * float(10 ** rng.uniform(-0.3, 0.3))
        A = cfac * A
    Am = dense(A)
    if not cplx:
        Am = Am.real
    yshape = list(A.oshape)
    y = crandn(rng, yshape, dt)
    lam = 0.0 if case["lam"] == 0.0 else float(10 ** rng.uniform(-1.5, 0)) * asc * asc
    z = crandn(rng, xshape, dt) / asc if case["z"] else None
    # ---- G
    kindG = case["G"]
    G = None
    Gm = None
    def wellcond(m):
        # regularisation operators with singular values in [0.5, 1.5]: ADMM / PDHG budgets
        # are stated for cond(A^H A + lamda I + rho G^H G) <= 1e2
        U, _ = np.linalg.qr(crandn(rng, [m, m], dt))
        V, _ = np.linalg.qr(crandn(rng, [n, n], dt))
        return (U[:, :n] * rng.uniform(0.5, 1.5, n)) @ V.conj().T
    if kindG == "square":
        Gq = wellcond(n)
        G = L.MatMul(xshape, Gq) if len(xshape) == 2 else L.Reshape(xshape, [n, 1]) * \
            L.MatMul([n, 1], Gq) * L.Reshape([n, 1], xshape)
    elif kindG == "tall":
        Gq = wellcond(n + 2)
        G = L.MatMul(xshape, Gq) if len(xshape) == 2 else \
            L.MatMul([n, 1], Gq) * L.Reshape([n, 1], xshape)
    elif kindG == "fd":
        G = L.FiniteDifference(xshape, axes=[0])
    elif kindG == "identity":
        G = L.Identity(xshape)                 # returns its input itself
    elif kindG == "reshape":
        G = L.Reshape([int(np.prod(xshape))], xshape)      # returns a view of its input
    if G is not None:
        Gm = dense(G)
        if not cplx:
            Gm = Gm.real
    gshape = list(G.oshape) if G is not None else xshape
    # ---- g
    pk = case["proxg"]
    if pk == "none":
        g, proxg = ("none",), None
    elif pk == "l1":
        w = float(10 ** rng.uniform(-1.5, -0.3))
        g, proxg = ("l1", w), sp.prox.L1Reg(gshape, w)
    elif pk == "l2":
        w = float(10 ** rng.uniform(-1.5, 0))
        g, proxg = ("l2", w), sp.prox.L2Reg(gshape, w)
    else:
        lo = -np.abs(rng.standard_normal(n)) * 0.3
        hi = lo + np.abs(rng.standard_normal(n)) * 0.6
        g, proxg = ("box", lo, hi), sp.prox.BoxConstraint(xshape, lo.reshape(xshape),
                                                          hi.reshape(xshape))
    solver = case["solver"]
    eff = solver or ("ConjugateGradient" if proxg is None else
                     "GradientMethod" if G is None else "PrimalDualHybridGradient")
    sig = "|".join(map(str, ["L%d" % (sum(case["rs"]) % 4), kindA, "c" if cplx else "r",
                             "lam" if lam else "0",
                             "z" if z is not None else "-", pk, kindG, solver,
                             "P" if case["P"] else "-", "a" if case["alpha"] else "-",
                             case["tau"], case["rho"], "x0" if case["x0"] else "-"]))
    wit = dict(case)
    # ---- certified optimum of the documented objective
    yv = y.ravel().copy()          # copies: the App may modify the caller's arrays
    zv = None if z is None else z.ravel().copy()
    # minimiser must be unique / problem well posed: A^H A + lam I > 0
    Hmat = Am.conj().T @ Am + lam * np.eye(n)
    if np.linalg.cond(Hmat) > 1e3:
        return inconclusive("generated problem too ill-conditioned")
    if G is None:
        xref, cert = OPT.solve_composite(Am, yv, g, mu=lam, z=zv)
        if not cert <= 1e-10:
            return inconclusive("reference not certified (%.2g)" % cert)
        phis = OPT.objective(Am, yv, g, xref, mu=lam, z=zv)
        lower = phis
    else:
        xref, phis, lower = OPT.solve_with_G(Am, yv, Gm, g, lam=lam, z=zv)
        if not phis - lower <= 1e-9 * max(1.0, abs(phis)):
            return inconclusive("reference duality gap %.2g" % (phis - lower))

    def phi(xx):
        xx = xx.ravel()
        val = 0.5 * float(np.sum(np.abs(Am @ xx - yv) ** 2))
        if lam:
            val += lam / 2 * float(np.sum(np.abs(xx - (0 if zv is None else zv)) ** 2))
        return val + OPT.g_value(g, (Gm @ xx) if Gm is not None else xx)

    # ---- options
    # (the progress bar - on by default - in a sixth of the cases: its read-outs must neither
    # fail nor touch the iterate; tqdm itself is silenced through TQDM_DISABLE)
    kw = dict(proxg=proxg, lamda=lam, G=G, z=z, solver=solver,
              show_pbar=bool(sum(case["rs"]) % 6 == 3), leave_pbar=False,
              max_iter=ITERS[eff] * (8 if case.get("_more") else 1), accelerate=case["acc"])
    if case["P"] and eff in ("ConjugateGradient", "ADMM"):
        d = np.real(np.diag(Hmat))
        kw["P"] = L.Multiply(xshape, (1 / d).reshape(xshape))
    nAG = np.linalg.norm(np.vstack([Am] + ([Gm] if Gm is not None else [])), 2)
    if eff == "GradientMethod" and case["alpha"]:
        kw["alpha"] = 1.0 / float(np.linalg.eigvalsh(Hmat)[-1])
    if eff == "PrimalDualHybridGradient":
        t = case["tau"]
        # (steps given in the scaled problem's units: with A -> s A the equivalent primal step
        # is tau / s^2 and the dual step is unchanged, i.e. 0.9 / ||A|| divided / multiplied by s)
        if t in ("tau", "both"):
            kw["tau"] = 0.9 / nAG / asc
        if t in ("sigma", "both"):
            kw["sigma"] = 0.9 / nAG * asc
        if t == "sigma-arr":
            osz = int(np.prod(yshape)) + (Gm.shape[0] if Gm is not None else 0)
            sa = (0.5 + rng.random(osz)) * 0.9 / nAG * asc
            kw["sigma"] = sa if G is not None else sa.reshape(yshape)
            if G is not None:
                kw["sigma"] = sa      # Vstack with axis=None flattens the dual variable
    if eff == "ADMM":
        kw["rho"] = case["rho"] * asc * asc     # the penalty scales with the operator
    x0 = None
    if case["x0"]:
        x0 = crandn(rng, xshape, dt)
        if g[0] == "box":
            x0 = np.minimum(np.maximum(x0, g[1].reshape(xshape)), g[2].reshape(xshape))
        kw["x"] = x0
    y_keep = y.copy()
    steps_keep = {k_: kw[k_].copy() for k_ in ("tau", "sigma")
                  if isinstance(kw.get(k_), np.ndarray)}
    layout = sum(case["rs"]) % 4
    if layout == 1:
        # read-only data (e.g. memory-mapped): a supported configuration must still run
        y.flags.writeable = False
        if z is not None:
            z.flags.writeable = False
    elif layout == 2 and x0 is not None:
        # initial x given as a strided view: the solution must land in the caller's view
        big = np.zeros(tuple(2 * n_ for n_ in x0.shape), x0.dtype)
        sl = tuple(slice(None, None, 2) for _ in x0.shape)
        big[sl] = x0
        x0 = big[sl]
        kw["x"] = x0
    # the same array object handed over twice: as initial x and as the prior z ("regularise
    # towards the starting point"), or as initial x and as the data y ("start from the data",
    # shapes permitting).  x is updated in place by design; the problem is still the one defined
    # by the values at call time.
    alias = None
    y_call = y
    if sum(case["rs"]) % 6 == 1 and layout not in (1, 2) and g[0] != "box":
        # (the same object, or - in half of these - another view object of the same memory,
        # as two slices of one buffer are)
        asview = (sum(case["rs"]) // 6) % 2 == 1
        if z is not None and lam > 0:
            if asview:
                # two distinct view objects of a third array (x = vol[k], z = vol[k])
                vol_ = np.stack([z, z])
                kw["z"] = z = vol_[1]
                kw["x"] = x0 = vol_[1]
            else:
                kw["x"] = x0 = z
            alias = "z-is-x" + ("-view" if asview else "")
        elif list(yshape) == list(xshape):
            y_call = y.copy()
            if asview:
                vol_ = np.stack([y_call, y_call])
                y_call = vol_[0]
                kw["x"] = x0 = vol_[0]
            else:
                kw["x"] = x0 = y_call
            alias = "x-is-y" + ("-view" if asview else "")
        if alias:
            sig += "|" + alias
    excluded = (eff == "ConjugateGradient" and proxg is not None) or \
               (eff == "GradientMethod" and G is not None)
    try:
        app = sp.app.LinearLeastSquares(A, y_call, **kw)
        xr = app.run()
    except Exception as e:
        inn = e
        while inn.__cause__ is not None:
            inn = inn.__cause__
        if excluded:
            r = held(sig + "|rejected", {"rejected": type(inn).__name__}, 1)
            r["tags"] = ["rejected-documented"]
            return r
        return violated(sig, "supported combination raised %s: %s" % (
            type(inn).__name__, str(inn)[:200]), wit, mech="raised:" + eff)
    if excluded:
        return violated(sig, "combination the solver cannot handle (%s with %s) did not raise"
                        % (eff, "proxg" if proxg is not None else "G"), wit,
                        mech="excluded-accepted")
    if x0 is not None and xr is not x0:
        return violated(sig, "initial x given but the solution was returned in another array",
                        wit, mech="not-in-place")
    if not np.all(np.isfinite(xr)):
        return violated(sig, "returned solution is not finite (%s)" % eff, wit,
                        mech="nonfinite:" + eff)
    val = phi(xr)
    gap = val - lower
    tol = TOL[eff]
    obs = {"gap_rel": gap / max(1.0, abs(phis)), "iters": app.alg.iter,
           "dist": nrm(xr.ravel() - xref) / max(1.0, nrm(xref)),
           "y_unchanged": bool(np.array_equal(y, y_keep))}
    if not gap <= tol * max(1.0, abs(phis)) and eff in ("ADMM", "PrimalDualHybridGradient") \
            and not case.get("_more") \
            and np.all(np.isfinite(xr)) and gap <= 0.05 * max(1.0, abs(phis)):
        # ADMM's rate depends on rho and on G (with a tall G, no prox and rho = 3 the default
        # budget leaves a gap of 1e-3 that is 1e-14 four budgets later): "returns the
        # minimiser" is a statement about the converged run, so a small miss is re-decided
        # with eight times the budget before it is called wrong (a wrong fixed point stays)
        return run_case(dict(case, _more=True))
    if not gap <= tol * max(1.0, abs(phis)):
        return violated(sig, "objective at the returned x is %.6g above the certified optimum "
                        "%.6g (relative gap %.3g, tol %.1g) with solver %s after %d iterations; "
                        "distance to the reference minimiser %.3g" % (
                            gap, phis, obs["gap_rel"], tol, eff, app.alg.iter, obs["dist"]),
                        wit, mech="suboptimal:" + eff, obs=obs)
    checks = 1
    for key in ("tau", "sigma"):
        if isinstance(kw.get(key), np.ndarray) and not np.array_equal(kw[key], steps_keep[key]):
            return violated(sig, "LinearLeastSquares (%s) modified the caller's %s array "
                            "(a later solve from the same array would use other steps)" % (
                                eff, key), wit, mech="caller-steps-modified:" + eff, obs=obs)
    if not obs["y_unchanged"]:
        # the documented objective is stated in terms of the y the caller holds: if the solve
        # overwrote that array, the returned x is not the minimiser for the caller's data any
        # more and a second solve from the same array solves another problem
        return violated(sig, "LinearLeastSquares (%s) overwrote the caller's data array y "
                        "(changed by %.3g): the returned x does not minimise the objective of "
                        "the data the caller now holds" % (eff, nrm(y - y_keep)), wit,
                        mech="caller-y-modified:" + eff, obs=obs)
    if sum(case["rs"]) % 5 == 0 and eff in ("GradientMethod", "PrimalDualHybridGradient",
                                             "ConjugateGradient"):
        # the same operator objects (A, G, proxg) in a second problem with a much larger
        # lamda and defaulted step sizes: nothing computed for the first problem (operator
        # norms, step sizes) may be carried over
        lam2 = 10.0 * lam + 2.0
        kw2 = dict(kw)
        kw2.update(lamda=lam2)
        for key in ("alpha", "tau", "sigma", "x", "P"):
            kw2.pop(key, None)
        if alias and alias.startswith("z-is-x"):
            kw2["z"] = zv.reshape(z.shape).copy()   # (the caller's z now holds the solution)
        if G is None:
            xref2, cert2 = OPT.solve_composite(Am, yv, g, mu=lam2, z=zv)
            low2 = OPT.objective(Am, yv, g, xref2, mu=lam2, z=zv)
            okref = cert2 <= 1e-10
        else:
            xref2, p2, low2 = OPT.solve_with_G(Am, yv, Gm, g, lam=lam2, z=zv)
            okref = p2 - low2 <= 1e-9 * max(1.0, abs(p2))
        if okref:
            y2 = yv.reshape(y.shape).copy()
            try:
                xr2 = sp.app.LinearLeastSquares(A, y2, **kw2).run()
            except Exception as e:
                inn = e
                while inn.__cause__ is not None:
                    inn = inn.__cause__
                return violated(sig, "second solve on the same operator objects (lamda %.3g -> "
                                "%.3g) raised %s: %s" % (lam, lam2, type(inn).__name__,
                                                         str(inn)[:150]), wit,
                                mech="reuse-raised:" + eff)
            x2 = xr2.ravel()
            val2 = 0.5 * float(np.sum(np.abs(Am @ x2 - yv) ** 2)) + lam2 / 2 * float(
                np.sum(np.abs(x2 - (0 if zv is None else zv)) ** 2)) + OPT.g_value(
                    g, (Gm @ x2) if Gm is not None else x2)
            gap2 = (val2 - low2) / max(1.0, abs(low2))
            checks += 1
            obs["reuse_gap_rel"] = gap2
            if not (np.all(np.isfinite(x2)) and gap2 <= tol):
                return violated(sig, "a second LinearLeastSquares on the same operator objects "
                                "with lamda %.3g (after lamda %.3g) misses its optimum by %.3g "
                                "(relative; solver %s)" % (lam2, lam, gap2, eff), wit,
                                mech="reuse-suboptimal:" + eff, obs=obs)
    if sum(case["rs"]) % 5 == 3 and not alias:
        # the caller refreshes, in place, the arrays the forward operator was built from (the
        # next frame's matrix / multiplier in the same buffers) and solves again with the SAME
        # operator objects: the minimiser of the problem defined by the operator as it is now
        from vf.monitors import linop_mon
        caps = [(n_, v_) for n_, v_ in linop_mon.captured_tree(A).values()
                if v_.flags.writeable and v_.dtype.kind in "fc" and v_.size]
        if caps:
            for n_, v_ in caps:
                v_.reshape(-1)[::2] *= v_.dtype.type(-0.7)
                v_.reshape(-1)[1::2] *= v_.dtype.type(1.2)
            Am3 = dense(A)
            if not cplx:
                Am3 = Am3.real
            ok3 = np.linalg.cond(Am3.conj().T @ Am3 + lam * np.eye(n)) <= 1e3
            if ok3 and G is None:
                xref3, cert3 = OPT.solve_composite(Am3, yv, g, mu=lam, z=zv)
                low3 = OPT.objective(Am3, yv, g, xref3, mu=lam, z=zv)
                ok3 = cert3 <= 1e-10
            elif ok3:
                xref3, p3, low3 = OPT.solve_with_G(Am3, yv, Gm, g, lam=lam, z=zv)
                ok3 = p3 - low3 <= 1e-9 * max(1.0, abs(p3))
            if ok3:
                kw3 = dict(kw)
                for key in ("alpha", "tau", "sigma", "x", "P"):
                    kw3.pop(key, None)
                if z is not None:
                    kw3["z"] = zv.reshape(z.shape).copy()
                try:
                    xr3 = sp.app.LinearLeastSquares(A, yv.reshape(y.shape).copy(), **kw3).run()
                except Exception as e:
                    inn = e
                    while inn.__cause__ is not None:
                        inn = inn.__cause__
                    return violated(sig, "solve after the operator's arrays were refreshed in "
                                    "place raised %s: %s" % (type(inn).__name__, str(inn)[:150]),
                                    wit, mech="refresh-raised:" + eff)
                x3 = xr3.ravel()
                val3 = 0.5 * float(np.sum(np.abs(Am3 @ x3 - yv) ** 2)) + lam / 2 * float(
                    np.sum(np.abs(x3 - (0 if zv is None else zv)) ** 2)) + OPT.g_value(
                        g, (Gm @ x3) if Gm is not None else x3)
                gap3 = (val3 - low3) / max(1.0, abs(low3))
                checks += 1
                obs["refresh_gap_rel"] = gap3
                sig += "|refresh"
                if not (np.all(np.isfinite(x3)) and gap3 <= tol):
                    return violated(sig, "after the arrays the forward operator was built from "
                                    "(%s) were refreshed in place, a solve with the same "
                                    "operator object misses the optimum of the refreshed problem "
                                    "by %.3g (relative; solver %s)" % (
                                        ", ".join(n_ for n_, _ in caps)[:100], gap3, eff), wit,
                                    mech="refresh-suboptimal:" + eff, obs=obs)
    r = held(sig, {k: v for k, v in obs.items() if k != "y_unchanged"}, checks)
    r["tags"] = ["solver:" + eff] + ([] if obs["y_unchanged"] else ["caller-y-modified"])
    return r
