"""C15 - solvers stop within max_iter and stop early only at genuine fixed points.

Deciding monitor: the trace monitor on Alg.update / Alg.done / App.run
(vf.monitors.alg_mon: every update advances iter by exactly one - checked inside the hook
for every Alg object of the process, nested ones included - and an update budget that turns
a non-terminating driver loop into a deterministic MonitorAbort on logical steps) plus
offline checks over each recorded history:
  L1 the canonical loop `while not alg.done(): alg.update()` and App.run() perform at most
     max_iter updates;  L2 App.run() returns the solution the algorithm holds;
  L3 early stop (tol = 0) only at fixed points: when the loop ends with iter < max_iter the
     harness snapshots the solution and keeps calling update() twice more; the solution must
     be unchanged to 1e-12 relative unless a breakdown flag is set;
  L4 interleavings: done() is pure (any number of calls changes nothing) and monotone;
  L5 PowerMethod on Hermitian PSD A: after the first update ||x|| = 1 and the eigenvalue
     estimate is non-decreasing and <= lambda_max (1e-12 relative).
"""
import numpy as np

from vf.common import Plan, crandn, held, violated, inconclusive, rng_for, nrm, pick
from vf import repo_tests
from vf.monitors import alg_mon, STATE

SPEC = {
    "rule": ("cases = (algorithm class / App, max_iter in {0,1,2,7,50}, instance class incl. "
             "zero initialisation with sparsity prox and tiny dual steps, box corners, b = 0, "
             "x0 = x*, solution 0; driver = canonical loop / App.run / random done-update "
             "interleaving); distinct = class + max_iter + instance class + driver; non-trivial = "
             "max_iter >= 1"),
    "boundscheck": {"quick": False, "thorough": False},
    "case_timeout": 300.0,
    "deciding_monitors": ["Alg.update", "Alg.done"],
    "assumptions": ["tol = 0 (SDMM: eps_pri = eps_dual = 0)", "problems with <= 10 unknowns"],
}

ALGS = ["PowerMethod", "GradientMethod", "GradientMethod-acc", "GradientMethod-box-acc",
        "ConjugateGradient", "ConjugateGradient-b0", "ConjugateGradient-xstar",
        "ConjugateGradient-illcond", "PDHG",
        "PDHG-acc", "PDHG-zero-l1-smallsigma", "PDHG-zero-l1-sigma0", "PDHG-zero-box", "AltMin",
        "AugmentedLagrangianMethod", "ADMM", "SDMM", "SDMM-norm", "NewtonsMethod",
        "NewtonsMethod-bt", "GerchbergSaxton", "GradientMethod-sol0", "GradientMethod-nested",
        "GradientMethod-iso", "GradientMethod-iso-acc", "NewtonsMethod-zero",
        "NewtonsMethod-zero-bt"]
APPS = ["MaxEig", "LLS-CG", "LLS-CG-strided", "LLS-GM", "LLS-PDHG", "LLS-PDHG-smallsigma", "LLS-ADMM",
        "L2ConstrainedMinimization", "SenseRecon", "EspiritCalib", "TotalVariationRecon",
        "JsenseRecon", "L1WaveletRecon"]
MAXITERS = [0, 1, 2, 7, 50]


def plan(tier, seed):
    P = Plan(15, seed)
    quick = tier == "quick"
    rng = P.rng("c15")
    reps = 2 if quick else 20
    for a in ALGS:
        for mi in MAXITERS:
            for r in range(reps):
                P.add("loop", alg=a, mi=mi, aseed=int(rng.integers(1 << 30)))
            for r in range(1 if quick else 8):
                P.add("interleave", alg=a, mi=mi, aseed=int(rng.integers(1 << 30)))
    # accelerated proximal gradient with a box and a minimiser inside / on part of the
    # boundary, conservative step, long budget: the momentum overshoot can be clipped on all
    # coordinates in consecutive updates, so x stalls exactly while the extrapolated point
    # still differs from it - a stop there is not a fixed point
    for r in range(240 if quick else 3000):
        P.add("fista-stall", n=int(pick(rng, [1, 1, 2, 2, 3])), aseed=int(rng.integers(1 << 30)),
              frac=float(pick(rng, [0.2, 0.5, 1.0])), mi=int(pick(rng, [300, 1000])))
    for a in APPS:
        for mi in ([0, 1, 7] if quick else MAXITERS):
            # (EspiritCalib with max_iter=0: its output - eigenvalue maps - is only defined
            # after one update and run() raises in _output on the pinned tree; the App's
            # algorithm is then driven by the loop itself, which must perform no update)
            for r in range(1 if quick else 6):
                P.add("app", app=a, mi=mi, aseed=int(rng.integers(1 << 30)))
    for r in range(40 if quick else 600):
        P.add("power", n=int(rng.integers(1, 9)), cplx=bool(rng.random() < 0.5),
              via=pick(rng, ["func", "linop", "maxeig"]), mi=int(pick(rng, [1, 5, 30])),
              spec=pick(rng, ["psd", "psd", "rankdef", "repeated", "zero"]),
              aseed=int(rng.integers(1 << 30)))
    # transient failures: the user's operator raises once during an update; the caller
    # catches the error and resumes the loop - the failed update must not count, so with
    # tol = 0 the solver still performs max_iter real updates before it stops
    for r in range(60 if quick else 600):
        P.add("transient", alg=pick(rng, ["ConjugateGradient", "GradientMethod", "PowerMethod",
                                          "GradientMethod-acc"]),
              mi=int(pick(rng, [1, 2, 4, 7])), fail_at=int(rng.integers(0, 7)),
              cplx=bool(rng.random() < 0.5), aseed=int(rng.integers(1 << 30)))
    # instances of realistic size (a long record, an image: more than 2**16 unknowns, sizes
    # that are not a multiple of a power of two) in which only a small part of the solution
    # still moves - the last samples, the first, a sparse set: with tol = 0 that is not a stop
    for r in range(16 if quick else 120):
        P.add("bigloop", alg=pick(rng, ["GradientMethod", "GradientMethod-acc", "ConjugateGradient",
                                        "PrimalDualHybridGradient", "GradientMethod-l1"]),
              size=int(pick(rng, [70000, 65537, 131073, 200001, 66000])),
              where=pick(rng, ["tail", "tail", "head", "sparse", "middle"]),
              cplx=bool(rng.random() < 0.4), mi=int(pick(rng, [6, 12])),
              aseed=int(rng.integers(1 << 30)), timeout=600)
    if tier == "thorough" and repo_tests.available():
        # the repository's own test suite as one more workload under the always-on monitors
        P.add("repo-tests", timeout=1800.0, fresh=True)
    return P.cases


def lsq(rng, n, cplx=False, m=None):
    m = m or n + 2
    dt = np.complex128 if cplx else np.float64
    M = crandn(rng, [m, n], dt) / np.sqrt(m)
    y = crandn(rng, [m], dt)
    return M, y


def make_alg(kind, rng, mi):
    """Returns (alg, sol() -> list of arrays, breakdown() -> bool)."""
    import sigpy as sp
    A_ = sp.alg
    n = int(rng.integers(2, 7))
    cplx = bool(rng.random() < 0.4)
    nobreak = lambda: False                 # noqa: E731
    if kind == "PowerMethod":
        M, _ = lsq(rng, n, cplx)
        H = M.conj().T @ M
        x = crandn(rng, [n], H.dtype)
        a = A_.PowerMethod(lambda v: H @ v, x, max_iter=mi)
        return a, (lambda: [a.x]), nobreak
    if kind.startswith("GradientMethod"):
        M, y = lsq(rng, n, False if "box" in kind else cplx)
        L = float(np.linalg.eigvalsh(M.conj().T @ M)[-1])
        if kind == "GradientMethod-nested":
            # the outer solver's prox is itself computed by an inner GradientMethod of the same
            # shape and dtype (two solver objects alive at once)
            mu = 0.3

            def proxg(alpha, v):
                w = v.copy()
                inner = A_.GradientMethod(lambda q: (q - v) + alpha * mu * q, w,
                                          1.0 / (1 + alpha * mu), max_iter=25)
                while not inner.done():
                    inner.update()
                return w
            x = crandn(rng, [n], M.dtype)
            a = A_.GradientMethod(lambda v: M.conj().T @ (M @ v - y), x, 1 / L, proxg=proxg,
                                  accelerate=bool(rng.random() < 0.5), max_iter=mi, tol=0)
            return a, (lambda: [a.x]), nobreak
        if kind.startswith("GradientMethod-iso"):
            # complex data whose steps are "isotropic": pairs (c, i c), so that sum(d * d) = 0
            # although ||d|| > 0 - the step is far from zero after the first update
            n2 = 2 * int(rng.integers(1, 4))
            c_ = crandn(rng, [n2 // 2], np.complex128) + 1.5
            yiso = np.stack([c_, 1j * c_], axis=1).ravel()
            dd = rng.uniform(0.5, 1.0, n2 // 2).repeat(2)       # same weight within a pair
            x = np.zeros(n2, np.complex128)
            a = A_.GradientMethod(lambda v: dd * v - yiso, x, 0.25,
                                  proxg=pick(rng, [None, sp.prox.L1Reg([n2], 1e-3)]),
                                  accelerate=kind.endswith("acc"), max_iter=mi, tol=0)
            return a, (lambda: [a.x]), nobreak
        if kind == "GradientMethod-box-acc":
            # optimum far outside the box: every coordinate gets clipped
            y = y * 50
            proxg = sp.prox.BoxConstraint([n], -0.1, 0.1)
            x = np.full(n, 0.1) * np.sign(rng.standard_normal(n))
            acc = True
        elif kind == "GradientMethod-sol0":
            y = y * 1e-3
            proxg = sp.prox.L1Reg([n], 10.0)
            x = np.zeros(n, M.dtype)
            acc = bool(rng.random() < 0.5)
        else:
            proxg = pick(rng, [None, sp.prox.L1Reg([n], 0.1)])
            x = np.zeros(n, M.dtype)
            acc = kind.endswith("acc")
        a = A_.GradientMethod(lambda v: M.conj().T @ (M @ v - y), x, 1 / L, proxg=proxg,
                              accelerate=acc, max_iter=mi, tol=0)
        return a, (lambda: [a.x]), nobreak
    if kind.startswith("ConjugateGradient"):
        M, y = lsq(rng, n, cplx)
        H = M.conj().T @ M + 0.1 * np.eye(n)
        b = M.conj().T @ y
        x = np.zeros(n, H.dtype)
        if kind.endswith("illcond"):
            # slow convergence: the residual passes through every small value long before
            # the solution is reached, so a stop at "small" (not zero) residual is premature
            n = 12
            Q, _ = np.linalg.qr(crandn(rng, [n, n], np.complex128 if cplx else np.float64))
            H = (Q * np.geomspace(1.0, 1e4, n)) @ Q.conj().T
            H = (H + H.conj().T) / 2
            b = crandn(rng, [n], H.dtype)
            x = np.zeros(n, H.dtype)
        if kind.endswith("b0"):
            b = np.zeros(n, H.dtype)
        elif kind.endswith("xstar"):
            x = np.linalg.solve(H, b)
        a = A_.ConjugateGradient(lambda v: H @ v, b, x, max_iter=mi, tol=0)
        return a, (lambda: [a.x]), (lambda: a.not_positive_definite)
    if kind.startswith("PDHG"):
        M, y = lsq(rng, n, False if "box" in kind else cplx)
        nA = float(np.linalg.norm(M, 2))
        m = M.shape[0]
        tau = sigma = 0.9 / nA
        gp = gd = 0
        proxg = sp.prox.L1Reg([n], 0.05)
        x = crandn(rng, [n], M.dtype)
        u = np.zeros(m, M.dtype)
        if kind == "PDHG-acc":
            proxg = sp.prox.L2Reg([n], 0.3)
            gp = 0.3
        elif kind == "PDHG-zero-l1-smallsigma":
            # primal variable pinned at 0 by the l1 prox while the dual moves slowly
            x = np.zeros(n, M.dtype)
            sigma = 1e-3 / nA
            tau = 0.9 / (nA * nA * sigma)
            proxg = sp.prox.L1Reg([n], 0.5 * float(np.max(np.abs(M.conj().T @ y))))
        elif kind == "PDHG-zero-l1-sigma0":
            # the same with an array-valued dual step that holds an exact zero (a zero-weight
            # sample used as dual preconditioner): that dual coordinate is frozen, the others
            # move - any residual formed as step / sigma meets 0 / 0 there
            x = np.zeros(n, M.dtype)
            sigma = np.full(m, 1e-3 / nA)
            sigma[int(rng.integers(m))] = 0.0
            tau = 0.9 / (nA * nA * 1e-3 / nA)
            proxg = sp.prox.L1Reg([n], 0.5 * float(np.max(np.abs(M.conj().T @ y))))
        elif kind == "PDHG-zero-box":
            x = np.zeros(n)
            sigma = 1e-3 / nA
            tau = 0.9 / (nA * nA * sigma)
            proxg = sp.prox.BoxConstraint([n], 0.0, 1.0)
        a = A_.PrimalDualHybridGradient(sp.prox.L2Reg([m], 1, y=-y), proxg, lambda v: M @ v,
                                        lambda v: M.conj().T @ v, x, u, tau, sigma,
                                        gamma_primal=gp, gamma_dual=gd, max_iter=mi, tol=0)
        return a, (lambda: [a.x, a.u]), nobreak
    if kind == "AltMin":
        T = crandn(rng, [n, n], np.float64)
        va, vb = np.ones(n), np.ones(n)

        def min1():
            va[:] = T @ vb / (vb @ vb)

        def min2():
            vb[:] = T.T @ va / (va @ va)
        a = A_.AltMin(min1, min2, max_iter=mi)
        return a, (lambda: [va, vb]), nobreak
    if kind == "AugmentedLagrangianMethod":
        M, y = lsq(rng, n, False)
        lam, mu = 0.1, 1.0
        xz = np.zeros(2 * n)
        v = np.zeros(n)

        def minL():
            xx, zz = xz[:n], xz[n:]
            xx[:] = np.linalg.solve(M.T @ M + mu * np.eye(n), M.T @ y - v + mu * zz)
            zz[:] = (mu * xx + v) / (mu + lam)
        a = A_.AugmentedLagrangianMethod(minL, None, lambda q: q[:n] - q[n:], xz, None, v, mu,
                                         max_iter=mi)
        return a, (lambda: [xz, v]), nobreak
    if kind == "ADMM":
        M, y = lsq(rng, n, False)
        rho, lam = 1.0, 0.1
        x, z, u = np.zeros(n), np.zeros(n), np.zeros(n)

        def mx():
            x[:] = np.linalg.solve(M.T @ M + rho * np.eye(n), M.T @ y + rho * (z - u))

        def mz():
            t = x + u
            z[:] = np.sign(t) * np.maximum(np.abs(t) - lam / rho, 0)
        a = A_.ADMM(mx, mz, x, z, u, lambda q: q, lambda q: -q, 0, max_iter=mi)
        return a, (lambda: [x, z, u]), nobreak
    if kind.startswith("SDMM"):
        M, y = lsq(rng, n, False)
        Aop = sp.linop.MatMul([n, 1], M)
        kw = dict(c_max=None, c_norm=None)
        if kind == "SDMM-norm":
            kw["c_norm"] = 0.05
        a = A_.SDMM(Aop, y.reshape(-1, 1), 0.1, L=[], c=[1], mu=10.0, rho=[1], rho_max=1,
                    rho_norm=1, eps_pri=0, eps_dual=0, max_cg_iter=3, max_iter=mi, **kw)
        return a, (lambda: [a.x]), nobreak
    if kind.startswith("NewtonsMethod"):
        M, y = lsq(rng, n, False)
        lam = 0.1
        H = M.T @ M + lam * np.eye(n)
        gradf = lambda v: M.T @ (M @ v - y) + lam * v                   # noqa: E731
        f = lambda v: 0.5 * np.sum((M @ v - y) ** 2) + lam / 2 * np.sum(v ** 2)   # noqa: E731
        Hi = np.linalg.inv(H)
        x = np.zeros(n)
        if "zero" in kind:
            # zero data and zero start: the gradient vanishes exactly - a genuine fixed point,
            # the solver must stop (not raise) and leave x alone
            y = np.zeros_like(y)
            gradf = lambda v: M.T @ (M @ v) + lam * v                   # noqa: E731
            f = lambda v: 0.5 * np.sum((M @ v) ** 2) + lam / 2 * np.sum(v ** 2)   # noqa: E731
        bt = kind.endswith("bt")
        a = A_.NewtonsMethod(gradf, lambda v: (lambda w: Hi @ w), x, beta=0.5 if bt else 1,
                             f=f if bt else None, max_iter=mi, tol=0)
        return a, (lambda: [a.x]), nobreak
    if kind == "GerchbergSaxton":
        M, _ = lsq(rng, n, True)
        Aop = sp.linop.MatMul([n, 1], M)
        xt = crandn(rng, [n, 1])
        yabs = np.abs(Aop(xt))
        x0 = crandn(rng, [n, 1])
        a = A_.GerchbergSaxton(Aop, yabs, x0, max_iter=mi, tol=0, lamb=0.1)
        return a, (lambda: [a.x]), nobreak
    raise ValueError(kind)


def snap(sol):
    return [np.array(v, copy=True) for v in sol()]


def changed(s0, s1, tol=1e-12, nan_counts=True):
    for p, q in zip(s0, s1):
        if p.shape != q.shape:
            return True, np.inf
        d = nrm(q - p)
        if (nan_counts and not np.isfinite(d)) or d > tol * max(1.0, nrm(p)):
            return True, d                  # (a solution turned NaN / inf has changed)
    return False, 0.0


def run_loop(case):
    rng = np.random.default_rng(case["aseed"])
    kind, mi = case["alg"], case["mi"]
    sig = "loop|%s|mi%d" % (kind, mi)
    wit = dict(case)
    alg, sol, breakdown = make_alg(kind, rng, mi)
    n = 0
    with alg_mon.budget(extra=3):
        while not alg.done():
            before = alg.iter
            alg.update()
            n += 1
            if alg.iter != before + 1:
                return violated(sig, "%s.update() moved iter from %d to %d" % (
                    kind, before, alg.iter), wit, mech="counter:" + kind)
    if n > mi:
        return violated(sig, "%d updates with max_iter=%d" % (n, mi), wit,
                        mech="max_iter:" + kind)
    obs = {"updates": n, "early": int(n < mi)}
    tags = []
    if n < mi:
        tags.append("early-stop:" + kind)
        if not breakdown():
            s0 = snap(sol)
            moved = 0.0
            for extra in range(2):
                alg.update()
                ch, d = changed(s0, snap(sol), nan_counts=(extra == 0))
                moved = max(moved, d)
                if ch:
                    return violated(sig, "%s stopped after %d of max_iter=%d updates with "
                                    "tol=0, but further update %d moves the solution by %.3g "
                                    "(not a fixed point, no breakdown flag)" % (
                                        kind, n, mi, extra + 1, d), wit,
                                    mech="early-stop:" + kind, obs=obs)
            obs["post_stop_move"] = moved
        else:
            tags.append("breakdown:" + kind)
    r = held(sig + ("|early" if n < mi else ""), obs, n + 1, mi >= 1)
    r["tags"] = tags
    return r


def run_bigloop(case):
    import sigpy as sp
    rng = np.random.default_rng(case["aseed"])
    kind, mi, N = case["alg"], case["mi"], case["size"]
    dt = np.complex128 if case["cplx"] else np.float64
    sig = "bigloop|%s|%s|%s" % (kind, case["where"], "c" if case["cplx"] else "r")
    wit = dict(case)
    K = 300
    idx = {"tail": np.arange(N - K, N), "head": np.arange(K),
           "middle": np.arange(N // 2, N // 2 + K),
           "sparse": np.sort(rng.choice(N, K, replace=False))}[case["where"]]
    d = 0.5 + 0.5 * rng.random(N)                      # distinct curvatures in [0.5, 1]
    b = np.zeros(N, dt)
    b[idx] = crandn(rng, [K], dt) + 2
    x = np.zeros(N, dt)
    sol = lambda: [x]                                   # noqa: E731
    if kind.startswith("GradientMethod"):
        proxg = sp.prox.L1Reg([N], 0.05) if kind.endswith("l1") else None
        alg = sp.alg.GradientMethod(lambda v: d * (v - b), x, 0.9, proxg=proxg,
                                    accelerate=kind.endswith("acc"), max_iter=mi, tol=0)
    elif kind == "ConjugateGradient":
        alg = sp.alg.ConjugateGradient(lambda v: d * v, d * b, x, max_iter=mi, tol=0)
    else:
        A = sp.linop.Multiply([N], np.sqrt(d).astype(dt))
        u = np.zeros(N, dt)
        sol = lambda: [x, u]                            # noqa: E731
        alg = sp.alg.PrimalDualHybridGradient(
            sp.prox.L2Reg([N], 1, y=-(np.sqrt(d) * b)), sp.prox.NoOp([N]), A, A.H, x, u,
            0.9, 0.9, max_iter=mi, tol=0)
    n = 0
    with alg_mon.budget(extra=3):
        while not alg.done():
            alg.update()
            n += 1
    if n > mi:
        return violated(sig, "%d updates with max_iter=%d" % (n, mi), wit,
                        mech="max_iter:" + kind)
    obs = {"updates": n, "unknowns": N, "moving": K}
    if n < mi and not getattr(alg, "not_positive_definite", False):
        s0 = snap(sol)
        for extra in range(2):
            alg.update()
            ch, dmove = changed(s0, snap(sol), nan_counts=(extra == 0))
            if ch:
                return violated(sig, "%s stopped after %d of max_iter=%d updates with tol=0 on "
                                "%d unknowns of which only %d (%s) still move, but a further "
                                "update moves the solution by %.3g" % (
                                    kind, n, mi, N, K, case["where"], dmove), wit,
                                mech="early-stop:" + kind, obs=obs)
    return held(sig, obs, n + 1, True)


def run_interleave(case):
    rng = np.random.default_rng(case["aseed"])
    kind, mi = case["alg"], case["mi"]
    sig = "interleave|%s|mi%d" % (kind, mi)
    wit = dict(case)
    alg, sol, breakdown = make_alg(kind, rng, mi)
    was_done = False
    updates = 0
    checks = 0
    for step in range(3 * (mi + 2) + 4):
        # (no update is issued once done() has answered True: the statement is about drivers
        # that honour done(); conjugate gradients with tol = 0 pushed on after its residual
        # has underflowed to exactly 0 divides 0 by 0 - outside what is promised)
        if rng.random() < 0.6 or updates >= mi + 2 or was_done:
            s0 = snap(sol)
            it0 = alg.iter
            vals = [alg.done() for _ in range(int(rng.integers(1, 4)))]
            checks += 1
            if len(set(map(bool, vals))) != 1:
                return violated(sig, "repeated done() calls disagree: %s" % vals, wit,
                                mech="done-impure:" + kind)
            ch, d = changed(s0, snap(sol), tol=0)
            if ch or alg.iter != it0:
                return violated(sig, "done() changed the state", wit,
                                mech="done-impure:" + kind)
            if was_done and not vals[0]:
                return violated(sig, "done() went from True back to False after %d updates "
                                "(max_iter=%d)" % (updates, mi), wit,
                                mech="done-nonmonotone:" + kind)
            was_done = was_done or bool(vals[0])
            if updates >= mi and not vals[0]:
                return violated(sig, "done() is False after %d >= max_iter=%d updates" % (
                    updates, mi), wit, mech="done-after-max:" + kind)
        else:
            before = alg.iter
            alg.update()
            updates += 1
            if alg.iter != before + 1:
                return violated(sig, "update() moved iter from %d to %d" % (before, alg.iter),
                                wit, mech="counter:" + kind)
    return held(sig, {"updates": updates}, checks, mi >= 1)


def run_app(case):
    import sigpy as sp
    import sigpy.mri as mr
    rng = np.random.default_rng(case["aseed"])
    name, mi = case["app"], case["mi"]
    sig = "app|%s|mi%d" % (name, mi)
    wit = dict(case)
    n = 5
    M, y = lsq(rng, n, bool(rng.random() < 0.5))
    A = sp.linop.MatMul([n, 1], M)
    yy = y.reshape(-1, 1)
    counts = {}

    def hook(alg, before):
        counts[id(alg)] = counts.get(id(alg), 0) + 1
    kw = dict(show_pbar=False, max_iter=mi)
    if name == "MaxEig":
        app = sp.app.MaxEig(A.N, dtype=M.dtype, **kw)
    elif name == "LLS-CG":
        app = sp.app.LinearLeastSquares(A, yy, lamda=0.1, **kw)
    elif name == "LLS-CG-strided":
        big = np.zeros([2 * n, 1], M.dtype)
        x0 = big[::2]                                  # caller's start vector is a strided view
        x0[:] = crandn(rng, [n, 1], M.dtype)
        app = sp.app.LinearLeastSquares(A, yy, x=x0, lamda=0.1, **kw)
    elif name == "LLS-GM":
        app = sp.app.LinearLeastSquares(A, yy, proxg=sp.prox.L1Reg([n, 1], 0.05), **kw)
    elif name == "LLS-PDHG":
        app = sp.app.LinearLeastSquares(A, yy, proxg=sp.prox.L1Reg([n, 1], 0.05),
                                        solver="PrimalDualHybridGradient", **kw)
    elif name == "LLS-PDHG-smallsigma":
        lam = 0.5 * float(np.max(np.abs(M.conj().T @ y)))
        app = sp.app.LinearLeastSquares(A, yy, proxg=sp.prox.L1Reg([n, 1], lam),
                                        solver="PrimalDualHybridGradient", sigma=1e-4, **kw)
    elif name == "LLS-ADMM":
        app = sp.app.LinearLeastSquares(A, yy, proxg=sp.prox.L1Reg([n, 1], 0.05),
                                        solver="ADMM", max_cg_iter=3, **kw)
    elif name == "L2ConstrainedMinimization":
        app = sp.app.L2ConstrainedMinimization(A, yy, sp.prox.L1Reg([n, 1], 1.0), 0.1, **kw)
    elif name in ("SenseRecon", "TotalVariationRecon"):
        mps = crandn(rng, [3, 6, 6])
        ksp = crandn(rng, [3, 6, 6])
        if name == "SenseRecon":
            app = mr.app.SenseRecon(ksp, mps, lamda=0.01, **kw)
        else:
            app = mr.app.TotalVariationRecon(ksp, mps, 0.01, **kw)
    elif name == "L1WaveletRecon":
        mps = crandn(rng, [3, 8, 8])
        ksp = crandn(rng, [3, 8, 8])
        app = mr.app.L1WaveletRecon(ksp, mps, 0.01, **kw)
    elif name == "JsenseRecon":
        ksp = crandn(rng, [3, 12, 12])
        app = mr.app.JsenseRecon(ksp, mps_ker_width=4, ksp_calib_width=8, max_iter=mi,
                                 max_inner_iter=3, show_pbar=False)
    elif name == "EspiritCalib":
        ksp = crandn(rng, [3, 12, 12])
        app = mr.app.EspiritCalib(ksp, calib_width=8, kernel_width=3, show_pbar=False,
                                  max_iter=mi)
    top = app.alg
    if name == "EspiritCalib" and mi == 0:
        with alg_mon.hooks(update=hook), alg_mon.budget(extra=3):
            while not top.done():
                top.update()
        nup = counts.get(id(top), 0)
        if nup > 0 or top.iter != 0:
            return violated(sig, "the algorithm of EspiritCalib(max_iter=0) performed %d "
                            "update(s) (iter = %d)" % (nup, top.iter), wit,
                            mech="max_iter:" + name)
        return held(sig + "|loop-only", {"updates": 0}, 1, False)
    with alg_mon.hooks(update=hook), alg_mon.budget(extra=3):
        out = app.run()
    nup = counts.get(id(top), 0)
    if nup > mi:
        return violated(sig, "%s.run() performed %d updates with max_iter=%d" % (name, nup, mi),
                        wit, mech="max_iter:" + name)
    if top.iter != nup:
        return violated(sig, "iter = %d after %d updates" % (top.iter, nup), wit,
                        mech="counter:" + name)
    # returns the solution the algorithm holds
    if name == "MaxEig":
        ok = out == top.max_eig
    elif name in ("EspiritCalib", "JsenseRecon"):
        ok = isinstance(out, np.ndarray)
    else:
        ok = out is app.x and np.array_equal(np.asarray(out), np.asarray(top.x))
    if not ok:
        return violated(sig, "%s.run() did not return the solution its algorithm holds" % name,
                        wit, mech="output:" + name)
    obs = {"updates": nup, "early": int(nup < mi)}
    tags = []
    # a second run() on the finished App: the algorithm is done, so no further update may be
    # performed and the same solution is returned
    if name not in ("JsenseRecon",):
        it0 = top.iter
        keep = np.array(out, copy=True) if isinstance(out, np.ndarray) else out
        with alg_mon.budget(extra=3):
            out2 = app.run()
        nup2 = counts.get(id(top), 0)
        if nup2 != nup or top.iter != it0:
            return violated(sig, "a second %s.run() on the finished App performed %d more "
                            "update(s) (iter %d -> %d, max_iter=%d)" % (
                                name, nup2 - nup, it0, top.iter, mi), wit,
                            mech="rerun-updates:" + name, obs=obs)
        same = np.allclose(np.asarray(out2), np.asarray(keep), rtol=1e-9, atol=0,
                           equal_nan=True) if isinstance(keep, np.ndarray) else out2 == keep
        if not same:
            return violated(sig, "a second %s.run() on the finished App returned another "
                            "solution" % name, wit, mech="rerun-output:" + name, obs=obs)
    if nup < mi and name not in ("EspiritCalib", "JsenseRecon"):
        tags.append("early-stop:" + name)
        if not getattr(top, "not_positive_definite", False):
            hold = [top.x] + ([top.u] if hasattr(top, "u") and isinstance(
                getattr(top, "u"), np.ndarray) else [])
            s0 = [np.array(v, copy=True) for v in hold]
            for extra in range(2):
                top.update()
                ch, d = changed(s0, hold, nan_counts=(extra == 0))
                if ch:
                    return violated(sig, "%s stopped after %d of %d updates with tol=0 but a "
                                    "further update moves the solution by %.3g" % (
                                        name, nup, mi, d), wit, mech="early-stop:" + name,
                                    obs=obs)
    r = held(sig, obs, 3, mi >= 1)
    r["tags"] = tags
    return r


def run_power(case):
    import sigpy as sp
    rng = np.random.default_rng(case["aseed"])
    n, cplx = case["n"], case["cplx"]
    dt = np.complex128 if cplx else np.float64
    G = crandn(rng, [n + 1, n], dt)
    if case["spec"] == "rankdef" and n > 1:
        G[:, 0] = G[:, 1]
    H = G.conj().T @ G
    if case["spec"] == "repeated":
        Q, _ = np.linalg.qr(crandn(rng, [n, n], dt))
        w = np.array(([3.0, 3.0, 1.0, 0.5, 0.5] * 2)[:n])
        H = (Q * w) @ Q.conj().T
    if case["spec"] == "zero":
        # the zero operator (all-zero data, an empty sampling mask): largest eigenvalue 0;
        # the estimates are 0 - not NaN - and never exceed it
        H = np.zeros((n, n), dt)
    H = (H + H.conj().T) / 2
    # the power iteration is scale invariant: operators of norm ~1e-8 and ~1e+8 as well
    hs = [1.0, 1.0, 1e-8, 1e8][case["aseed"] % 4]
    H = H * hs
    lmax = float(np.linalg.eigvalsh(H)[-1])
    sig = "power|%s|%s|%s|mi%d|s%g" % (case["spec"], "c" if cplx else "r", case["via"],
                                       case["mi"], hs)
    wit = dict(case)
    ests = []

    def rec(alg, before):
        if type(alg).__name__ == "PowerMethod":
            ests.append((float(alg.max_eig), float(np.linalg.norm(alg.x))))
    if case["via"] == "maxeig":
        Aop = sp.linop.MatMul([n, 1], H)
        np.random.seed(case["aseed"] % (2 ** 32))
        with alg_mon.hooks(update=rec):
            out = sp.app.MaxEig(Aop, dtype=dt, max_iter=case["mi"], show_pbar=False).run()
        if ests and out != ests[-1][0]:
            return violated(sig, "MaxEig returned %r, algorithm holds %r" % (out, ests[-1][0]),
                            wit, mech="output:MaxEig")
    else:
        if case["via"] == "linop":
            Aop = sp.linop.MatMul([n, 1], H)
            x = crandn(rng, [n, 1], dt)
        else:
            Aop = lambda v: H @ v            # noqa: E731
            x = crandn(rng, [n], dt)
        alg = sp.alg.PowerMethod(Aop, x, max_iter=case["mi"])
        with alg_mon.hooks(update=rec):
            while not alg.done():
                alg.update()
    if len(ests) > case["mi"]:
        return violated(sig, "%d updates with max_iter=%d" % (len(ests), case["mi"]), wit,
                        mech="max_iter:PowerMethod")
    prev = None
    for k, (e, nx) in enumerate(ests):
        if not (np.isfinite(e) and np.isfinite(nx)):
            return violated(sig, "eigenvalue estimate / vector became non-finite at update %d "
                            "(estimate %r, ||x|| %r; lambda_max = %.6g)" % (k + 1, e, nx, lmax),
                            wit, mech="power-nonfinite")
        if e > 0 and abs(nx - 1) > 1e-10:
            return violated(sig, "||x|| = %.12g after update %d" % (nx, k + 1), wit,
                            mech="power-norm")
        if e > lmax * (1 + 1e-12) + 1e-300 and k >= 1:
            return violated(sig, "eigenvalue estimate %.15g exceeds lambda_max %.15g at update "
                            "%d" % (e, lmax, k + 1), wit, mech="power-exceeds")
        if prev is not None and k >= 2 and e < prev * (1 - 1e-12) - 1e-300:
            return violated(sig, "eigenvalue estimate decreased %.15g -> %.15g at update %d" % (
                prev, e, k + 1), wit, mech="power-decreased")
        prev = e
    return held(sig, {"updates": len(ests)}, len(ests), n >= 2)


def run_fista_stall(case):
    import sigpy as sp
    rng = np.random.default_rng(case["aseed"])
    n, mi = case["n"], case["mi"]
    M = crandn(rng, [n + 1, n], np.float64)
    xin = rng.uniform(-1.2, 1.2, n)                 # unconstrained minimiser, near the box
    y = M @ xin
    L = float(np.linalg.eigvalsh(M.T @ M)[-1])
    x = np.where(rng.random(n) < 0.5, -1.0, 1.0) * rng.uniform(0.5, 1.0, n)
    alg = sp.alg.GradientMethod(lambda v: M.T @ (M @ v - y), x, case["frac"] / L,
                                proxg=sp.prox.BoxConstraint([n], -1.0, 1.0), accelerate=True,
                                max_iter=mi, tol=0)
    sig = "fista-stall|n%d|%s|mi%d" % (n, case["frac"], mi)
    k = 0
    with alg_mon.budget(extra=3):
        while not alg.done():
            alg.update()
            k += 1
    obs = {"updates": k, "early": int(k < mi)}
    tags = []
    if k < mi:
        tags.append("early-stop:fista-box")
        s0 = [x.copy()]
        for extra in range(2):
            alg.update()
            ch, d = changed(s0, [x], nan_counts=(extra == 0))
            if ch:
                return violated(sig, "accelerated GradientMethod with a box stopped after %d of "
                                "max_iter=%d updates with tol=0, but further update %d moves x "
                                "by %.3g (x had stalled while the extrapolated point had not)"
                                % (k, mi, extra + 1, d), dict(case),
                                mech="early-stop:GradientMethod-acc-box", obs=obs)
    r = held(sig + ("|early" if k < mi else ""), obs, k + 1, True)
    r["tags"] = tags
    return r


def run_transient(case):
    import sigpy as sp
    rng = np.random.default_rng(case["aseed"])
    kind, mi = case["alg"], case["mi"]
    n = int(rng.integers(2, 7))
    dt = np.complex128 if case["cplx"] else np.float64
    G = crandn(rng, [n + 2, n], dt)
    H = G.conj().T @ G + 0.1 * np.eye(n)
    b = crandn(rng, [n], dt)
    calls = [0]
    fail_at = case["fail_at"]

    class Transient(RuntimeError):
        pass

    def op(v):
        calls[0] += 1
        if calls[0] == fail_at + 2:        # (+1: the constructors of CG / none apply A once)
            raise Transient("transient failure of the user's operator")
        return H @ v
    sig = "transient|%s|mi%d|f%d|%s" % (kind, mi, fail_at, "c" if case["cplx"] else "r")
    wit = dict(case)
    x = np.zeros(n, dt)
    if kind == "ConjugateGradient":
        alg = sp.alg.ConjugateGradient(op, b, x, max_iter=mi, tol=0)
    elif kind.startswith("GradientMethod"):
        L = float(np.linalg.eigvalsh(H)[-1])
        alg = sp.alg.GradientMethod(lambda v: op(v) - b, x, 1 / L,
                                    accelerate=kind.endswith("acc"), max_iter=mi, tol=0)
    else:
        x = crandn(rng, [n], dt)
        alg = sp.alg.PowerMethod(op, x, max_iter=mi)
    good = failed = 0
    while not alg.done():
        try:
            alg.update()
            good += 1
        except Transient:
            failed += 1
        if good + failed > mi + 5:
            return violated(sig, "driver loop does not stop", wit, mech="max_iter:" + kind)
    obs = {"good": good, "failed": failed}
    if alg.iter != good:
        return violated(sig, "%s: iteration counter %d after %d completed updates (%d update(s) "
                        "raised and were caught by the caller)" % (kind, alg.iter, good, failed),
                        wit, mech="counter-after-raise:" + kind, obs=obs)
    npd = bool(getattr(alg, "not_positive_definite", False))
    resid0 = kind != "PowerMethod" and float(getattr(alg, "resid", 1.0)) == 0.0
    if good < mi and not npd and not resid0:
        return violated(sig, "%s stopped after %d of max_iter=%d completed updates with tol=0 "
                        "(one update raised and was caught): not a fixed point" % (
                            kind, good, mi), wit, mech="early-stop-after-raise:" + kind, obs=obs)
    r = held(sig, obs, 2, True)
    r["tags"] = ["transient:%s" % ("hit" if failed else "not-reached")]
    return r


def run_case(case):
    if case["gen"] == "repo-tests":
        return repo_tests.run("C15")
    if case["gen"] == "transient":
        return run_transient(case)
    fn = run_fista_stall if case["gen"] == "fista-stall" else {
        "loop": run_loop, "interleave": run_interleave, "app": run_app,
        "power": run_power, "bigloop": run_bigloop}[case["gen"]]
    try:
        return fn(case)
    except alg_mon.MonitorAbort:
        raise
    except Exception as e:
        # every generated problem is well posed (no case raises on the unchanged tree): a
        # solver that raises never reaches done() - the driver loop does not terminate normally
        inn = e
        while inn.__cause__ is not None:
            inn = inn.__cause__
        import traceback
        where = traceback.extract_tb(inn.__traceback__)[-1]
        return violated("%s|%s|raised" % (case["gen"], case.get("alg", case.get("app", ""))),
                        "the solver raised %s: %s (at %s:%d) on a well-posed problem instead of "
                        "stopping" % (type(inn).__name__, str(inn)[:150],
                                      where.filename.split("/")[-1], where.lineno),
                        dict(case), mech="raised:" + str(case.get("alg", case.get("app", ""))))
