"""C18 - Poisson-disc masks are binary, reproducible, calibrated and hit the acceleration.

Deciding monitor: a call-counting wrapper on sigpy.mri.samp._poisson (the module global
poisson() looks up at call time) plus postconditions on what poisson() returns:
  values subset of {0, 1}, requested dtype and shape; |size/sum - accel| < tol; the centred
  calibration block of the requested shape all ones; with crop_corner no sample at
  normalised radius r >= 1 (r recomputed by the harness as the documented k-space radius,
  measured from the calibration block's edge as the library defines it - with calib = (0,0)
  exactly the inscribed ellipse); equal arguments and seed give equal masks;
  numpy.random.get_state() bit-identical before and after, for arbitrary prior states.
"Or else raises" is a termination property and is decided on logical steps: the slope
bisection halves a float interval, so it needs <= ~80 kernel calls; a call that neither
returns nor raises ValueError within 200 kernel calls is a violation (the wrapper raises a
private abort, which also makes a would-be hang a deterministic witness).
numba bounds checking is on in both tiers.
"""
import numpy as np

from vf.common import Plan, held, violated, inconclusive, rng_for, pick
from vf.monitors import STATE

SPEC = {
    "rule": ("cases = (shape 16..128 square/rectangular, accel in (1, 12], calib 0..16 per "
             "axis, tol, seed, crop_corner, dtype, prior numpy.random state) incl. unreachable "
             "requests; distinct = (aspect class, accel class, calib class, tol, crop, dtype, "
             "outcome); non-trivial = every case"),
    "boundscheck": {"quick": True, "thorough": True},
    "case_timeout": 300.0,
    "deciding_monitors": ["_poisson:calls", "fn:poisson"],
    "assumptions": ["seed is an integer (seed=None is documented as unseeded)"],
}


class PoissonAbort(BaseException):
    pass


_CALLS = [0]


def worker_init():
    import sigpy.mri.samp as S
    orig = S._poisson

    def counted(*a, **k):
        _CALLS[0] += 1
        STATE.count["_poisson:calls"] += 1
        if _CALLS[0] > 200:
            raise PoissonAbort()
        return orig(*a, **k)
    S._poisson = counted


def plan(tier, seed):
    P = Plan(18, seed)
    quick = tier == "quick"
    rng = P.rng("poisson")
    for i in range(200 if quick else 2500):
        hi = 97 if quick else 129
        if rng.random() < 0.4:
            n = int(rng.integers(16, hi))
            shape = [n, n]
        else:
            shape = [int(rng.integers(16, hi)), int(rng.integers(16, hi))]
        kind = pick(rng, ["normal", "normal", "normal", "near1", "huge"])
        if kind == "near1":
            accel = float(np.round(rng.uniform(1.01, 1.3), 3))
        elif kind == "huge":
            accel = float(np.round(rng.uniform(8, 12), 2))
        else:
            accel = float(np.round(rng.uniform(1.5, 8), 2))
        calib = [int(pick(rng, [0, 0, int(rng.integers(1, 17))])) for _ in range(2)] \
            if rng.random() < 0.7 else [int(rng.integers(1, 17))] * 2
        if i % 8 == 7:
            # very large calibration regions (corners reach beyond the inscribed ellipse):
            # every calibration point is still sampled, cropped corners or not
            f = [float(rng.uniform(0.55, 1.0)), float(rng.uniform(0.55, 1.0))]
            calib = [max(1, int(f[0] * shape[0])), max(1, int(f[1] * shape[1]))]
            accel = float(np.round(rng.uniform(1.05, max(1.1, 0.8 / (f[0] * f[1]))), 3))
        P.add("poisson", shape=shape, accel=accel, calib=calib,
              tol=pick(rng, [0.05, 0.1, 0.1, 0.5]),
              seed=int(pick(rng, [0, 0, 1, int(rng.integers(0, 1000)),
                                  int(rng.integers(0, 1000)), int(rng.integers(0, 2 ** 31))])),
              crop=bool(rng.random() < 0.6),
              dtype=pick(rng, ["complex128", "complex128", "float64", "float32", "complex64"]),
              prior=int(rng.integers(0, 1 << 30)), adv=int(rng.integers(0, 1000)))
        if i % 10 == 6:
            P.cases[-1]["pyopt"] = True      # python -O: "or else raises an error" still holds
        if i % 7 == 3:
            # the unseeded path (seed=None): no reference mask exists, but the mask is still
            # binary / calibrated / cropped / within tol and NumPy's global state untouched
            P.cases[-1]["seed"] = None
    # the kernel run as plain Python (numba's NUMBA_DISABLE_JIT=1, as under a debugger or a
    # coverage run): its seeding and draws then act on NumPy's global generator, and only
    # poisson's own save / restore keeps the state untouched.  Small grids (the interpreted
    # kernel is about 1000 times slower); workers started with that switch.  (Seeded calls
    # only: an unseeded interpreted kernel has no other source of randomness than NumPy's
    # global generator, so that combination is outside what the statement can mean.)
    # the mask depends only on the arguments and the seed - not on the size of the numba thread
    # pool of the process: seeded requests in a worker with four threads, compared with the
    # mask a one-thread interpreter returns
    for i in range(3 if quick else 16):
        shape = [int(rng.integers(24, 65)), int(rng.integers(24, 65))]
        P.add("poisson", shape=shape, accel=float(np.round(rng.uniform(2, 6), 2)),
              calib=[int(pick(rng, [0, 4, 8])) for _ in range(2)], tol=0.2,
              seed=int(rng.integers(0, 1000)), crop=bool(rng.random() < 0.5), dtype="float64",
              prior=int(rng.integers(0, 1 << 30)) // 4 * 4, adv=int(rng.integers(0, 1000)),
              threads=4, timeout=600)
    for i in range(10 if quick else 80):
        shape = [int(rng.integers(8, 15)), int(rng.integers(8, 15))]
        P.add("poisson", shape=shape, accel=float(np.round(rng.uniform(1.4, 12), 2)),
              calib=[int(pick(rng, [0, 2, 3])) for _ in range(2)],
              tol=pick(rng, [0.2, 0.5, 0.05, 1e-4]),
              seed=pick(rng, [0, 1, int(rng.integers(0, 1000)), int(rng.integers(0, 1000))]),
              crop=bool(rng.random() < 0.6), dtype=pick(rng, ["complex128", "float64"]),
              prior=int(rng.integers(0, 1 << 30)), adv=int(rng.integers(0, 1000)),
              nojit=True, timeout=900)
    return P.cases


def run_case(case):
    import sigpy.mri as mr
    ny, nx = case["shape"]
    cy, cx = case["calib"]
    accel, tol = case["accel"], case["tol"]
    dtype = np.dtype(case["dtype"])
    wit = dict(case)
    # arbitrary prior state of numpy's global generator
    np.random.seed(case["prior"])
    np.random.random(case["adv"])
    if case["adv"] % 2:
        np.random.standard_normal()      # leaves a cached Gaussian pending in the legacy state
    st0 = np.random.get_state()
    kw = dict(calib=(cy, cx), dtype=dtype, crop_corner=case["crop"], seed=case["seed"], tol=tol)
    variant = case["prior"] % 4
    shape_arg, accel_arg = (ny, nx), accel
    if variant == 1:        # lists and NumPy scalars instead of tuples and Python numbers
        shape_arg, accel_arg = [ny, nx], np.float64(accel)
        kw.update(calib=[cy, cx], tol=np.float64(tol),
                  seed=None if case["seed"] is None else np.int64(case["seed"]))
    elif variant == 2:
        shape_arg = np.array([ny, nx])
        kw.update(calib=np.array([cy, cx]))
    aspect = "sq" if ny == nx else ("tall" if ny > nx else "wide")
    acls = "near1" if accel < 1.4 else "huge" if accel >= 8 else "mid"
    ccls = "c0" if cy == 0 and cx == 0 else "c1ax" if cy == 0 or cx == 0 else "c2"
    sig = "|".join(map(str, [aspect, acls, ccls, tol, "crop" if case["crop"] else "full",
                             dtype.name, "v%d" % (case["prior"] % 4)]))
    sd_ = 0 if case["seed"] is None else case["seed"]       # seed of the auxiliary calls
    if case["seed"] is None:
        sig += "|unseeded"
    if case.get("nojit"):
        import os
        from numba import config as _nbc
        if not (os.environ.get("NUMBA_DISABLE_JIT") == "1" and _nbc.DISABLE_JIT):
            return inconclusive("this worker does not run with NUMBA_DISABLE_JIT=1",
                                sig="nojit-not-active")
        sig += "|nojit"
    if case["prior"] % 5 < 2:
        # history: an earlier call in this process with the same image shape but another
        # calibration region / crop setting (nothing derived from the arguments may be
        # remembered under a key that leaves some of them out)
        try:
            _CALLS[0] = 0
            mr.poisson((ny, nx), 3.0, calib=((cy + 10) % 20, (cx + 6) % 20),
                       crop_corner=not case["crop"], seed=sd_ + 7, tol=1.0)
        except (ValueError, PoissonAbort):
            pass
        st0 = np.random.get_state()
    _CALLS[0] = 0

    def call():
        if case["adv"] % 3 == 0:
            # the documented signature (img_shape, accel, calib, dtype, crop_corner,
            # return_density, seed, max_attempts, tol) called positionally
            return mr.poisson(shape_arg, accel_arg, kw["calib"], kw["dtype"], kw["crop_corner"],
                              False, kw["seed"], 30, kw["tol"])
        return mr.poisson(shape_arg, accel_arg, **kw)
    try:
        mask = call()
        outcome = "mask"
    except ValueError as e:
        outcome = "error"
        err = str(e)
    except PoissonAbort:
        return violated(sig, "poisson(%s, %s, calib=%s, tol=%s, seed=%s, crop_corner=%s) neither "
                        "returned a mask nor raised within 200 kernel calls (non-terminating "
                        "slope search)" % ((ny, nx), accel, (cy, cx), tol, case["seed"],
                                           case["crop"]), wit, mech="nontermination")
    except IndexError as e:
        return violated(sig, "index out of bounds inside the numba kernel: %s" % e, wit,
                        mech="bounds")
    calls = _CALLS[0]
    st1 = np.random.get_state()
    same_state = (st0[0] == st1[0] and np.array_equal(st0[1], st1[1]) and st0[2:] == st1[2:])
    if not same_state:
        return violated(sig, "numpy's global random state changed across poisson() (%s)" %
                        outcome, wit, mech="rng-state")
    obs = {"kernel_calls": calls}
    if outcome == "error":
        r = held(sig + "|error", obs, 2)
        r["tags"] = ["raised-ValueError"]
        return r
    checks = 2
    if tuple(mask.shape) != (ny, nx) or mask.dtype != dtype:
        return violated(sig, "mask has shape %s dtype %s, requested %s %s" % (
            mask.shape, mask.dtype, (ny, nx), dtype), wit, mech="shape-dtype")
    vals = np.unique(mask)
    checks += 1
    if not np.all((vals == 0) | (vals == 1)):
        return violated(sig, "mask contains values other than 0 and 1: %s" % vals[:5], wit,
                        mech="nonbinary")
    m = np.real(mask) > 0
    act = m.size / max(m.sum(), 1)
    obs["accel_dev/tol"] = abs(act - accel) / tol
    checks += 1
    if not abs(act - accel) < tol:
        return violated(sig, "acceleration %.4f, requested %.4f +- %s" % (act, accel, tol), wit,
                        mech="accel", obs=obs)
    y0, x0 = (ny - cy) // 2, (nx - cx) // 2
    blk = m[y0:y0 + cy, x0:x0 + cx]
    checks += 1
    if blk.size and not blk.all():
        return violated(sig, "calibration block [%d:%d, %d:%d] is not fully sampled (%d of %d)"
                        % (y0, y0 + cy, x0, x0 + cx, int(blk.sum()), blk.size), wit,
                        mech="calib")
    if case["crop"]:
        yy, xx = np.mgrid[:ny, :nx]
        ax = np.maximum(np.abs(xx - nx / 2) - cx / 2, 0)
        ay = np.maximum(np.abs(yy - ny / 2) - cy / 2, 0)
        r = np.sqrt((ax / ax.max()) ** 2 + (ay / ay.max()) ** 2)
        checks += 1
        # the points of the calibration block are required by the clause above; when the block
        # reaches the border of the grid its outermost line sits at r == 1 (the block is
        # filled with integer bounds, r is measured from the un-rounded half-width)
        outside = m & (r >= 1)
        outside[y0:y0 + cy, x0:x0 + cx] = False
        if np.any(outside):
            k = np.argwhere(outside)[0]
            return violated(sig, "sample at %s lies at normalised radius %.4f >= 1 with "
                            "crop_corner on" % (tuple(k), r[tuple(k)]), wit, mech="corner")
    # reproducibility (depends only on arguments and seed), under another prior state
    np.random.seed((case["prior"] + 12345) % (1 << 30))
    # an intervening call with other arguments: nothing may be remembered between calls
    try:
        _CALLS[0] = 0
        mr.poisson((max(16, nx - 3), max(16, ny - 5)) if not case.get("nojit") else (nx, ny),
                   2.0 + (sd_ % 3), calib=(cx, cy), seed=sd_ + 1, tol=0.5)
    except (ValueError, PoissonAbort):
        pass
    _CALLS[0] = 0
    # the returned mask is the caller's array: overwriting it must not change what an
    # identical later call returns
    mask_first = mask.copy()
    if mask.flags.writeable:
        mask[...] = 0.5
    mask = mask_first
    try:
        # (the repeat is always made with keywords: positional and keyword calls with the same
        # values must give the same mask)
        mask2 = mr.poisson(shape_arg, accel_arg, **kw)
    except (ValueError, PoissonAbort) as e2_:
        if case["seed"] is None and isinstance(e2_, ValueError):
            # unseeded: another random pattern may legitimately miss the tolerance
            r = held(sig + "|second-raised", obs, checks)
            r["tags"] = ["returned-mask"]
            return r
        return violated(sig, "second call with equal arguments did not return a mask", wit,
                        mech="reproducibility")
    checks += 1
    if case.get("threads") and case["seed"] is not None:
        import hashlib
        import os
        import subprocess
        import sys
        import numba
        if numba.get_num_threads() != case["threads"]:
            return inconclusive("this worker's numba thread pool has %d threads" %
                                numba.get_num_threads(), sig="threads-not-active")
        code = ("import numpy as np, hashlib, sigpy.mri as mr;"
                "m = mr.poisson(%r, %r, calib=%r, dtype=np.%s, crop_corner=%r, seed=%r, tol=%r);"
                "print('H=' + hashlib.sha1(np.ascontiguousarray(m).tobytes()).hexdigest())" % (
                    (ny, nx), float(accel), (cy, cx), dtype.name, bool(case["crop"]),
                    int(case["seed"]), float(tol)))
        env = dict(os.environ, NUMBA_NUM_THREADS="1")
        try:
            pr = subprocess.run([sys.executable, "-c", code], env=env, capture_output=True,
                                text=True, timeout=300)
            h1 = [l for l in pr.stdout.splitlines() if l.startswith("H=")]
        except subprocess.TimeoutExpired:
            h1 = []
        if not h1:
            return inconclusive("one-thread reference interpreter gave no mask", sig="threads-ref")
        checks += 1
        if h1[0][2:] != hashlib.sha1(np.ascontiguousarray(mask).tobytes()).hexdigest():
            return violated(sig, "the mask of a process with %d numba threads differs from the "
                            "mask a one-thread process returns for the same arguments and seed"
                            % case["threads"], wit, mech="thread-count")
        sig += "|threads%d" % case["threads"]
    if case["seed"] is None:
        # unseeded: no two masks need agree; the second one obeys the same static clauses
        m2 = np.real(mask2) > 0
        if tuple(mask2.shape) != (ny, nx) or not np.all((mask2 == 0) | (mask2 == 1)) or \
                not abs(m2.size / max(m2.sum(), 1) - accel) < tol:
            return violated(sig, "second unseeded mask is not a binary mask of the requested "
                            "shape and acceleration", wit, mech="unseeded-second")
        st2 = np.random.get_state()
        r = held(sig, obs, checks)
        r["tags"] = ["returned-mask"]
        return r
    if not np.array_equal(mask, mask2):
        return violated(sig, "two calls with equal arguments and seed gave different masks "
                        "(%d differing points)" % int(np.sum(mask != mask2)), wit,
                        mech="reproducibility")
    r = held(sig, obs, checks)
    r["tags"] = ["returned-mask"]
    return r
