"""C10 - orthogonal wavelet transform is norm-preserving and perfectly invertible.

Deciding monitor: postconditions on the real linop.Wavelet / InverseWavelet and
sigpy.fwt / iwt for every orthogonal wavelet PyWavelets offers in the haar/db/sym/coif
families: exact advertised coefficient shape, ||W x|| = ||x||, W^H W x = x,
<W x, y> = <x, W^H y> for arbitrary y in coefficient space.  Tolerance 1e-9 relative
(filters up to 76 taps in float64; observed <= 1e-12).  Orthogonality of each name is
confirmed from pywt.Wavelet(name).orthogonal, otherwise the case is outside the property.
"""
import numpy as np

from vf.common import vary_seq, structured, Plan, relayout, crandn, held, violated, inconclusive, rng_for, nrm, inner, pick

SPEC = {
    "deciding_monitors": ["fn:fwt", "fn:iwt", "apply:Wavelet", "in:layout:F", "in:layout:strided", "in:complex64", "in:float32"],
    "rule": ("cases = (wavelet name over all haar/db/sym/coif names, shape 1-3 dims incl. odd "
             "lengths and lengths shorter than the filter, axes subset positive/negative/None, "
             "level None/1/2/3, real/complex, Linop or function); distinct = (family, filter "
             "length class, ndim, parity pattern, axes kind, level, dtype, via); non-trivial = "
             "at least one transformed axis of length >= 2"),
    "boundscheck": {"quick": False, "thorough": False},
    "case_timeout": 120.0,
    "assumptions": ["PyWavelets' filter banks are the definition of the wavelet families"],
}


def wave_names():
    import pywt
    names = []
    for fam in ("haar", "db", "sym", "coif"):
        names += pywt.wavelist(fam)
    return names


def plan(tier, seed):
    P = Plan(10, seed)
    quick = tier == "quick"
    names = wave_names()
    rng = P.rng("wav")
    reps = 6 if quick else 90
    for name in names:
        for i in range(reps):
            nd = int(pick(rng, [1, 1, 2, 2, 3]))
            lim = [40, 16, 8][nd - 1] if not quick else [24, 10, 6][nd - 1]
            shape = [int(rng.integers(1, lim + 1)) for _ in range(nd)]
            if i % 6 == 5:         # size-dependent regime: several levels really decimate
                shape = [int(pick(rng, [[32, 33, 47, 64, 65, 96], [16, 17, 24, 32], [8, 9, 12]][
                    nd - 1])) for _ in range(nd)]
            r = rng.random()
            if r < 0.3:
                axes = None
            else:
                k = int(rng.integers(1, nd + 1))
                ax = sorted(rng.choice(nd, size=k, replace=False).tolist())
                axes = [int(a - nd) if rng.random() < 0.4 else int(a) for a in ax]
                if rng.random() < 0.4:
                    axes = [int(a) for a in rng.permutation(axes)]     # any order
            P.add("wav", name=name, shape=shape, axes=axes,
                  level=pick(rng, [None, None, 1, 2, 3]),
                  dt=pick(rng, ["complex128", "float64", "complex128", "float64", "complex64",
                                "float32", "int64"]), via=pick(rng, ["linop", "linop", "func"]))
    # realistic sizes (a stack of 256 x 256 slices or coils is the ordinary use of
    # Wavelet(axes=(-2, -1))): well past a million samples, odd leading lengths, the
    # transformed axes given explicitly or not
    big = [([21, 256, 256], [-2, -1]), ([9, 384, 384], [1, 2]), ([2051, 640], [-1]),
           ([5, 300, 301], [-2, -1]), ([1048579], None), ([33, 200, 180], None),
           ([1025, 1027], [0]), ([3, 7, 160, 161], [-1, -2]), ([257, 64, 65], [1, 2]),
           ([1100, 1000], None)]
    rngb = P.rng("wav-big")
    for i in range(3 if quick else 20):
        shape, axes = big[int(rngb.integers(len(big)))] if not quick or i else big[
            int(rngb.integers(4))]
        P.add("wav", name=pick(rngb, ["haar", "db2", "db4", "sym4", "coif1"]), shape=shape,
              axes=axes, level=pick(rngb, [None, 1, 2, 3]),
              dt=pick(rngb, ["complex64", "float64", "float32"]),
              via=pick(rngb, ["linop", "func"]), big=True)
    # histories: several operators for the same (shape, wavelet, level) but different axes in
    # one process, in random order - anything the library remembers between calls (shape or
    # slice layouts) must be keyed by all of the parameters
    for i in range(60 if quick else 900):
        nd = int(pick(rng, [2, 2, 3]))
        lim = [0, 12, 7][nd - 1] if quick else [0, 16, 8][nd - 1]
        shape = [int(rng.integers(2, lim + 1)) for _ in range(nd)]
        variants = [None]
        for k in range(3):
            kk = int(rng.integers(1, nd + 1))
            ax = sorted(rng.choice(nd, size=kk, replace=False).tolist())
            variants.append([int(a) for a in rng.permutation(
                [int(a - nd) if rng.random() < 0.4 else int(a) for a in ax])])
        order = [int(v) for v in rng.permutation(len(variants))]
        P.add("wav-history", name=pick(rng, ["haar", "db2", "db4", "sym4", "coif1"]),
              shape=shape, variants=[variants[j] for j in order],
              level=pick(rng, [None, None, 1, 2]), dt=pick(rng, ["complex128", "float64"]),
              via="linop")
    return P.cases


def run_case(case):
    if case["gen"] == "wav-history":
        last = None
        n = 0
        for axes in case["variants"] + case["variants"][:1]:
            c = dict(case, axes=axes)
            r = run_one(c)
            n += r.get("checks", 0)
            if r["verdict"] != "held":
                r["why"] = "after operators with other axes were built in this process: " + \
                    r.get("why", "")
                r["sig"] = "history|" + r.get("sig", "")
                return r
            last = r
        last["sig"] = "history|%s|%dd|%s" % (case["name"], len(case["shape"]), case["level"])
        last["checks"] = n
        return last
    return run_one(case)


def run_one(case):
    import warnings
    import pywt
    import sigpy as sp
    rng = rng_for(case)
    name, shape, axes, level = case["name"], case["shape"], case["axes"], case["level"]
    dt = np.dtype(case["dt"])
    w = pywt.Wavelet(name)
    if not w.orthogonal:
        return inconclusive("%s is not orthogonal: outside the property" % name)
    nd = len(shape)
    tr = list(range(nd)) if axes is None else [a % nd for a in axes]
    fam = w.family_name.split()[0]
    flen = w.dec_len
    sig = "|".join(map(str, [fam, "L%d" % min(flen // 8, 4), nd,
                             "".join("1" if s == 1 else "o" if s % 2 else "e" for s in shape),
                             "none" if axes is None else ("neg" if any(a < 0 for a in axes)
                                                          else "pos") + (
                                 "u" if [a % nd for a in axes] != sorted(a % nd for a in axes)
                                 else ""), level, dt.name, case["via"],
                             "short" if any(shape[a] < flen for a in tr) else "long"]))
    wit = dict(case)
    tol = 1e-9 if dt in (np.float64, np.complex128) or dt.kind == "i" else 2e-4
    with warnings.catch_warnings():
        warnings.simplefilter("ignore")
        try:
            at_ = (sum(case["rs"]) // 5) % 8
            W = sp.linop.Wavelet(vary_seq(shape, at_), axes=vary_seq(axes, at_), wave_name=name,
                                 level=level)
            rt_ = sum(case["rs"]) % 5 == 3
            if rt_:
                # serialisation round trip (pickle / deep copy) of the operator and of its
                # adjoint between construction and use
                import copy
                import pickle
                W = pickle.loads(pickle.dumps(W)) if sum(case["rs"]) % 2 else copy.deepcopy(W)
            with structured((sum(case["rs"]) // 3) % 10 if sum(case["rs"]) % 2 else 0):
                x0_ = crandn(rng, shape, dt if dt.kind != "i" else np.float64)
            if dt.kind == "i":
                # real data held in an integer array (counts, labels, raw ADC samples): the
                # coefficients are not integers - same isometry, inverse and adjoint
                x0_ = np.round(x0_ * 6).astype(dt)
            x = relayout(x0_, sum(case["rs"]) % 6)   # 1-3: F / T / strided
            mag = [1, 1, 1, 1e-10, 1e8][sum(case["rs"]) % 5]     # the transform is homogeneous
            if dt.kind == "i":
                mag = 1
            if mag != 1:
                x = x * x.dtype.type(mag)
            x0 = x.copy(order="C")
            if case["via"] == "linop":
                c = W(x)
                back = W.H(c)
            else:
                c = sp.fwt(x, wave_name=name, axes=vary_seq(axes, at_), level=level)
                _, slices = sp.wavelet.get_wavelet_shape(shape, name, axes, level)
                back = sp.iwt(c, shape, slices, wave_name=name, axes=axes, level=level)
            y = crandn(rng, tuple(W.oshape), dt if dt.kind != "i" else np.float64)
            if mag != 1:
                y = y * y.dtype.type(mag)
            WHy = W.H(y)
            # the same pair reached the other way round: adjoint of the adjoint, and the
            # inverse-transform operator constructed directly and its adjoint
            WHHx = W.H.H(x)
            Wi = sp.linop.InverseWavelet(shape, axes=axes, wave_name=name, level=level)
            if rt_:
                Wi = copy.deepcopy(Wi) if sum(case["rs"]) % 2 else pickle.loads(pickle.dumps(Wi))
            WiHx = Wi.H(x)
            Wiy = Wi(y)
        except Exception as e:
            inn = e
            while inn.__cause__ is not None:
                inn = inn.__cause__
            return violated(sig, "wavelet transform raised %s: %s" % (
                type(inn).__name__, str(inn)[:200]), wit, mech="raised:" + type(inn).__name__)
    checks = 4
    obs = {}
    if [int(v) for v in c.shape] != [int(v) for v in W.oshape]:
        return violated(sig, "coefficient array has shape %s, operator advertises %s" % (
            c.shape, W.oshape), wit, mech="shape")
    if tuple(back.shape) != tuple(shape) or tuple(WHy.shape) != tuple(shape):
        return violated(sig, "inverse returned shape %s, expected %s" % (back.shape, shape),
                        wit, mech="shape")
    nx = nrm(x0)
    obs["isometry"] = abs(nrm(c) - nx) / max(nx, 1e-300)
    obs["inverse"] = nrm(back - x0) / max(nx, 1e-300)
    lhs, rhs = inner(c, y), inner(x0, WHy)
    sc = nrm(c) * nrm(y) + nx * nrm(WHy) + 1e-300
    obs["adjoint"] = abs(lhs - rhs) / sc
    if not obs["isometry"] <= tol:
        return violated(sig, "forward transform does not preserve the norm: rel %.3g" %
                        obs["isometry"], wit, mech="isometry", obs=obs)
    if not obs["inverse"] <= tol:
        return violated(sig, "inverse(forward(x)) != x: rel %.3g" % obs["inverse"], wit,
                        mech="inverse", obs=obs)
    if not obs["adjoint"] <= tol:
        return violated(sig, "inverse is not the adjoint of forward: %s vs %s" % (lhs, rhs),
                        wit, mech="adjoint", obs=obs)
    if not np.array_equal(x, x0):
        return violated(sig, "input modified", wit, mech="mutated")
    cref = W(x0)
    for nm_, got_, ref_ in (("Wavelet.H.H", WHHx, cref), ("InverseWavelet.H", WiHx, cref),
                            ("InverseWavelet", Wiy, WHy)):
        checks += 1
        if tuple(got_.shape) != tuple(ref_.shape):
            return violated(sig, "%s returns shape %s where the forward / inverse pair gives "
                            "%s" % (nm_, got_.shape, ref_.shape), wit, mech="indirect-shape")
        e_ = nrm(got_ - ref_) / max(nrm(ref_), 1e-300)
        obs["indirect"] = max(obs.get("indirect", 0.0), e_)
        if not e_ <= tol:
            return violated(sig, "%s differs from the transform reached directly: rel %.3g" % (
                nm_, e_), wit, mech="indirect", obs=obs)
    # normal operators of the pair: W.N = W^H W (the identity), and for the inverse
    # Wi.N = Wi^H Wi = W W^H - a projector onto the range of W, not the identity
    try:
        n1, n2, n3 = W.N(x), Wi.N(y), W.H.N(y)
    except Exception as e:
        inn = e
        while inn.__cause__ is not None:
            inn = inn.__cause__
        return violated(sig, "normal operator of the wavelet pair raised %s: %s" % (
            type(inn).__name__, str(inn)[:200]), wit, mech="raised:" + type(inn).__name__)
    pref = W(WHy)
    for nm_, got_, ref_ in (("Wavelet.N", n1, back), ("InverseWavelet.N", n2, pref),
                            ("Wavelet.H.N", n3, pref)):
        checks += 1
        if tuple(got_.shape) != tuple(ref_.shape):
            return violated(sig, "%s returns shape %s, adjoint(forward) gives %s" % (
                nm_, got_.shape, ref_.shape), wit, mech="normal-shape")
        e_ = nrm(got_ - ref_) / max(nrm(ref_), nrm(y) if nm_ != "Wavelet.N" else nx, 1e-300)
        obs["normal"] = max(obs.get("normal", 0.0), e_)
        if not e_ <= tol:
            return violated(sig, "%s differs from applying the operator and then its adjoint: "
                            "rel %.3g" % (nm_, e_), wit, mech="normal", obs=obs)
    return held(sig, obs, checks, any(shape[a] >= 2 for a in tr))
