"""C17 - ESPIRiT maps are unit-norm or zero, phase-referenced, and recover true maps.

Deciding monitor: postconditions on the arrays returned by the real
sigpy.mri.app.EspiritCalib(..., output_eigenvalue=True).run():
  per voxel ||m||_2 in {0} U [1 - 1e-5, 1 + 1e-5]; m = 0 iff eigenvalue <= crop;
  Im m_0 = 0 (1e-6) and Re m_0 >= 0; eigenvalues in [-1e-6, 1 + 1e-5]; no NaN;
recovery: k-space synthesised from smooth maps (k-space support 3 by construction) times a
full-support image: where the calibration is well posed (number of calibration blocks >= 2x
the signal-subspace dimension (kernel_width+2)^nd, coils*kernel_width^nd >= 1.4x it) the
returned magnitudes agree with the true rss-normalised maps to 1e-3 (thresh 1e-3; 4e-2 at
the default thresh 0.02, which may truncate weak signal directions) on voxels further than
kernel_width from the border with eigenvalue > 0.99 (observed 1e-6; outside that regime, e.g.
kernel_width 2 or 2-3 coils, ESPIRiT itself misses by 0.01-0.5, which is not a defect).
The always-on monitors observe the
PowerMethod updates (exactly-once counter) and the block kernel runs under numba bounds
checking in both tiers.
"""
import numpy as np

from vf.common import Plan, crandn, held, violated, inconclusive, rng_for, nrm, pick

SPEC = {
    "rule": ("cases = (k-space class [random complex / synthesised from smooth maps x image], "
             "2-D 8..24 or 3-D 8..12, coils 2..8, calib_width, kernel_width, thresh, crop, "
             "dtype complex128/complex64); distinct = those classes; non-trivial = every case"),
    "boundscheck": {"quick": True, "thorough": True},
    "case_timeout": 300.0,
    "deciding_monitors": ["update:PowerMethod", "in:layout:F", "in:layout:strided", "in:complex64"],
    "assumptions": ["all-zero k-space is outside the statement (0/0 phase reference)"],
}


def plan(tier, seed):
    P = Plan(17, seed)
    quick = tier == "quick"
    rng = P.rng("esp")
    for i in range(60 if quick else 700):
        nd = int(pick(rng, [2, 2, 2, 3]))
        if nd == 2:
            shape = [int(rng.integers(8, 25)) for _ in range(2)]
        else:
            shape = [int(rng.integers(8, 13)) for _ in range(3)]
        cw = int(rng.integers(4, min(shape) + 1))
        kw = int(rng.integers(2, min(6, cw) + 1))
        if nd == 3:
            cw = min(cw, 8)
            kw = min(kw, 3, cw)
        P.add("esp", shape=shape, nc=int(rng.integers(2, 9)), cw=cw, kw=kw,
              thresh=pick(rng, [1e-3, 0.02, 0.05]), crop=pick(rng, [0, 0.8, 0.95, 0.99]),
              kind=pick(rng, ["random", "synth", "synth"]),
              dt=pick(rng, ["complex128", "complex128", "complex64"]),
              eseed=int(rng.integers(1 << 30)))
    # directed recovery cases.  The maps are smooth by construction (k-space support p = 3),
    # so the calibration matrix has an exact signal subspace of dimension
    # sig = (kernel_width + p - 1)^nd; ESPIRiT recovers the maps when there are enough
    # calibration blocks to span it (rows >= 2 sig) and enough coils for a null space
    # (coils * kernel_width^nd >= 1.4 sig).  Outside that regime recovery is not promised
    # (measured: misses by 0.01 .. 0.5), inside it is exact to 1e-6.
    for i in range(30 if quick else 300):
        nd = 2 if i % 5 else 3
        if nd == 2:
            kw = int(pick(rng, [3, 4, 5]))
            cw = int({3: 10, 4: 12, 5: 14}[kw] + rng.integers(0, 4))
            nc = int(rng.integers({3: 4, 4: 4, 5: 3}[kw], 9))
            shape = [int(rng.integers(cw, 25)) for _ in range(2)]
        else:
            kw, cw, nc = 3, int(rng.integers(9, 11)), int(rng.integers(7, 9))
            shape = [int(rng.integers(cw, 13)) for _ in range(3)]
        P.add("esp", shape=shape, nc=nc, cw=cw, kw=kw, thresh=pick(rng, [1e-3, 0.02]),
              crop=pick(rng, [0.5, 0.8, 0.95]), kind="bandlimited", dt="complex128",
              eseed=int(rng.integers(1 << 30)))
    # large calibration regions with a small kernel and few coils (very tall calibration
    # matrix), odd and even matrix sizes past 32
    for i in range(6 if quick else 80):
        kw = int(pick(rng, [3, 4, 5]))
        nc = int(rng.integers({3: 4, 4: 4, 5: 3}[kw], 7))
        cw = int(rng.integers(30, 41))
        shape = [int(rng.integers(cw, 50)) for _ in range(2)]
        P.add("esp", shape=shape, nc=nc, cw=cw, kw=kw, thresh=pick(rng, [1e-3, 0.02]),
              crop=pick(rng, [0.5, 0.8, 0.95]), kind="bandlimited", dt="complex128",
              eseed=int(rng.integers(1 << 30)))
    # very few power iterations (max_iter = 1, 2, 3): unit-or-zero norm, phase reference and
    # the eigenvalue range do not wait for convergence (recovery is not decided there)
    for i in range(10 if quick else 120):
        shape = [int(rng.integers(8, 20)) for _ in range(2)]
        cw = int(rng.integers(4, min(shape) + 1))
        P.add("esp", shape=shape, nc=int(rng.integers(2, 9)), cw=cw,
              kw=int(rng.integers(2, min(5, cw) + 1)), thresh=pick(rng, [1e-3, 0.02, 0.05]),
              crop=pick(rng, [0, 0.8, 0.95]), kind=pick(rng, ["random", "synth"]),
              dt=pick(rng, ["complex128", "complex64"]), eseed=int(rng.integers(1 << 30)),
              mi=int(pick(rng, [1, 1, 2, 3])))
    # realistic matrix sizes: long, strongly anisotropic 2-D matrices in both orientations
    # (a 96 x 640 readout-oversampled slice), a 3-D volume - tens of thousands of voxels
    real_ = [[96, 640], [640, 96], [12, 600], [600, 12], [200, 300], [16, 64, 72], [72, 20, 16]]
    for i in range(3 if quick else 14):
        shape = real_[int(rng.integers(4))] if quick else real_[i % len(real_)]
        nd = len(shape)
        kw = 3
        cw = min(min(shape), 12 if nd == 2 else 9)
        P.add("esp", shape=shape, nc=4 if nd == 2 else 7, cw=cw, kw=kw,
              thresh=pick(rng, [1e-3, 0.02]), crop=pick(rng, [0.5, 0.8, 0.95]),
              kind="bandlimited", dt=pick(rng, ["complex128", "complex64"]),
              eseed=int(rng.integers(1 << 30)), timeout=1200)
    return P.cases


def run_case(case):
    import sigpy as sp
    import sigpy.mri as mr
    rng = np.random.default_rng(case["eseed"])
    shape, nc = case["shape"], case["nc"]
    nd = len(shape)
    dt = np.dtype(case["dt"])
    sig = "|".join(map(str, ["esp" if not case.get("mi") else "esp-mi%d" % case["mi"], nd,
                             case["kind"], "nc%d" % min(nc, 4),
                             "cw%d" % min(case["cw"] // 4, 3), "kw%d" % case["kw"],
                             case["thresh"], case["crop"], dt.name, "lay%d" % (case["eseed"] % 4)]))
    wit = dict(case)
    true = None
    if case["kind"] == "random":
        ksp = crandn(rng, [nc] + shape, dt)
    elif case["kind"] == "bandlimited":
        p = 3
        ker = crandn(rng, [nc] + [p] * nd) * 0.3
        ker[(slice(None),) + (p // 2,) * nd] += crandn(rng, [nc]) * 2
        true = sp.ifft(sp.resize(ker, [nc] + shape), axes=list(range(-nd, 0))) * \
            np.sqrt(np.prod(shape))
        img = (1.0 + 0.5 * rng.random(shape)) * np.exp(6j * rng.random(shape))
        ksp = sp.fft(true * img, axes=list(range(-nd, 0))).astype(dt)
    else:
        true = mr.birdcage_maps([nc] + shape)
        img = (1.0 + 0.5 * rng.random(shape)) * np.exp(1j * rng.random(shape))
        ksp = sp.fft(true * img, axes=list(range(-nd, 0))).astype(dt)
    lay = case["eseed"] % 4
    if lay == 1:
        ksp = np.asfortranarray(ksp)                     # memory-layout variants
    elif lay == 2:
        ksp = np.ascontiguousarray(np.swapaxes(ksp, 1, 2)).swapaxes(1, 2)
    ksp0 = ksp.copy()
    try:
        if case["eseed"] % 4 == 1 and not case.get("mi"):
            # documented signature (ksp, calib_width, thresh, kernel_width, crop, max_iter,
            # device, output_eigenvalue, show_pbar) called positionally
            import sigpy as sp_
            app = mr.app.EspiritCalib(ksp, case["cw"], case["thresh"], case["kw"], case["crop"],
                                      100, sp_.cpu_device, True, False)
        elif case["eseed"] % 4 == 3 and not case.get("mi"):
            # the progress bar left at its default (on; tqdm itself is silenced through
            # TQDM_DISABLE): what it displays must not touch what is returned
            app = mr.app.EspiritCalib(ksp, calib_width=case["cw"], thresh=case["thresh"],
                                      kernel_width=case["kw"], crop=case["crop"],
                                      output_eigenvalue=True)
            sig += "|pbar"
        else:
            app = mr.app.EspiritCalib(ksp, calib_width=case["cw"], thresh=case["thresh"],
                                      kernel_width=case["kw"], crop=case["crop"],
                                      output_eigenvalue=True, show_pbar=False,
                                      **({"max_iter": case["mi"]} if case.get("mi") else {}))
        if case["eseed"] % 3 == 0:
            # history: a second calibration of the same shape and dtype is constructed before
            # the first one is run (e.g. slice-by-slice processing builds all apps first)
            other = mr.app.EspiritCalib(crandn(rng, list(ksp.shape), dt),
                                        calib_width=case["cw"], thresh=case["thresh"],
                                        kernel_width=case["kw"], crop=case["crop"],
                                        output_eigenvalue=True, show_pbar=False)
        if case["eseed"] % 7 == 2 and not case.get("mi"):
            # the public crop attribute assigned after construction (it is only needed when the
            # result is assembled): same maps as with crop given to the constructor
            app = mr.app.EspiritCalib(ksp, calib_width=case["cw"], thresh=case["thresh"],
                                      kernel_width=case["kw"], crop=0.123,
                                      output_eigenvalue=True, show_pbar=False)
            app.crop = case["crop"]
            sig += "|crop-assigned"
        if case["eseed"] % 7 == 4:
            # the inner algorithm driven by hand with the documented loop (to watch it
            # converge), then run() for the output: the same maps
            while not app.alg.done():
                app.alg.update()
            sig += "|stepped-by-hand"
        mps, eig = app.run()
        if case["eseed"] % 5 == 2:
            # history: run() once more on the finished calibration: the same maps again
            mk_, ek_ = np.array(mps, copy=True), np.array(eig, copy=True)
            mps_b, eig_b = app.run()
            if not (np.array_equal(mps, mk_, equal_nan=True)
                    and np.array_equal(np.asarray(eig), ek_, equal_nan=True)):
                return violated(sig, "the arrays returned by the first run() were changed by a "
                                "second run() on the same calibration object", wit,
                                mech="rerun-alias")
            if not (np.allclose(mps_b, mk_, rtol=1e-9, atol=1e-12, equal_nan=True)
                    and np.allclose(np.asarray(eig_b), ek_, rtol=1e-9, atol=1e-12,
                                    equal_nan=True)):
                return violated(sig, "a second run() on the finished calibration returns other "
                                "maps (%d NaN, max diff %.3g)" % (
                                    int(np.sum(np.isnan(mps_b))),
                                    float(np.nanmax(np.abs(mps_b - mk_)))), wit,
                                mech="rerun-output")
        if case["eseed"] % 5 == 1 and case["crop"] and not case.get("mi"):
            # history: the same calibration first fails in its output step (crop=None cannot be
            # compared), the caller repairs the setting on the object and runs it again: the
            # maps must be those of a calibration that never failed
            app2 = mr.app.EspiritCalib(ksp, calib_width=case["cw"], thresh=case["thresh"],
                                       kernel_width=case["kw"], crop=None,
                                       output_eigenvalue=True, show_pbar=False)
            failed_first = False
            try:
                app2.run()
            except Exception:
                failed_first = True
            if failed_first:
                app2.crop = case["crop"]
                mps2, eig2_ = app2.run()
                dz = int(np.sum((np.sum(np.abs(mps2), axis=0) == 0)
                                != (np.sum(np.abs(mps), axis=0) == 0)))
                # (the phase normalisation ran twice on the repaired object: equal up to
                # round-off, identical zero pattern)
                rt_ = 1e-9 if dt == np.complex128 else 1e-4
                if dz or mps2.shape != mps.shape or np.max(np.abs(mps2 - mps)) > rt_ or \
                        np.max(np.abs(np.asarray(eig2_) - np.asarray(eig))) > rt_:
                    return violated(sig, "a calibration object whose first run() failed in the "
                                    "output step (crop=None) and was then repaired returns other "
                                    "maps than a fresh one: max diff %.3g (eigenvalues %.3g), "
                                    "%d voxels with a different zero pattern" % (
                                        float(np.max(np.abs(mps2 - mps))),
                                        float(np.max(np.abs(np.asarray(eig2_)
                                                            - np.asarray(eig)))), dz), wit,
                                    mech="rerun-after-failure")
    except Exception as e:
        inn = e
        while inn.__cause__ is not None:
            inn = inn.__cause__
        mech = "bounds" if isinstance(inn, IndexError) else "raised:" + type(inn).__name__
        return violated(sig, "EspiritCalib raised %s: %s" % (type(inn).__name__,
                                                             str(inn)[:200]), wit, mech=mech)
    tol = 1e-5 if dt == np.complex128 else 2e-3
    checks = 0
    obs = {}
    if eig.ndim == nd + 1 and eig.shape[0] == 1:       # returned with a singleton coil axis
        eig = eig[0]
    if tuple(mps.shape) != tuple([nc] + shape) or tuple(eig.shape) != tuple(shape):
        return violated(sig, "maps shape %s / eigenvalue shape %s, expected %s / %s" % (
            mps.shape, eig.shape, [nc] + shape, shape), wit, mech="shape")
    if not (np.all(np.isfinite(mps)) and np.all(np.isfinite(eig))):
        return violated(sig, "NaN/inf in the returned maps or eigenvalues", wit, mech="nan")
    nrm_v = np.sqrt(np.sum(np.abs(mps) ** 2, axis=0))
    zero = nrm_v == 0
    unit = np.abs(nrm_v - 1) <= tol
    checks += 1
    obs["norm_dev"] = float(np.max(np.abs(nrm_v[~zero] - 1))) if (~zero).any() else 0.0
    if not np.all(zero | unit):
        bad = np.argwhere(~(zero | unit))[0]
        return violated(sig, "voxel %s has coil-vector norm %.8g (neither 0 nor 1)" % (
            tuple(bad), nrm_v[tuple(bad)]), wit, mech="norm", obs=obs)
    checks += 1
    should_zero = np.real(eig) <= case["crop"]
    if not np.array_equal(zero, should_zero):
        k = np.argwhere(zero != should_zero)[0]
        return violated(sig, "voxel %s: eigenvalue %.6g, crop %.3g, but map is %s" % (
            tuple(k), float(np.real(eig[tuple(k)])), case["crop"],
            "zero" if zero[tuple(k)] else "non-zero"), wit, mech="crop")
    checks += 1
    m0 = mps[0]
    obs["phase_ref_imag"] = float(np.max(np.abs(m0.imag)))
    if not (np.max(np.abs(m0.imag)) <= max(tol, 1e-6) and np.min(m0.real) >= -max(tol, 1e-6)):
        return violated(sig, "first coil is not real non-negative: max|Im| %.3g, min Re %.3g"
                        % (np.max(np.abs(m0.imag)), np.min(m0.real)), wit, mech="phase-ref",
                        obs=obs)
    checks += 1
    er = np.real(eig)
    obs["eig_max"] = float(er.max())
    obs["eig_min"] = float(er.min())
    etol = 1e-5 if dt == np.complex128 else 1e-3
    if not (er.min() >= -1e-6 and er.max() <= 1 + etol):
        return violated(sig, "eigenvalues outside [0, 1]: min %.8g max %.8g" % (
            er.min(), er.max()), wit, mech="eig-range", obs=obs)
    if not np.array_equal(ksp, ksp0):
        return violated(sig, "k-space argument modified", wit, mech="mutated")
    # boundary of the crop rule: re-run with crop exactly equal to one voxel's eigenvalue
    # (the computation is deterministic): that voxel must now be zero ("does not exceed")
    if (~zero).any() and case["eseed"] % 3 == 0 and not case.get("mi"):
        cand = np.argwhere(~zero)
        k = tuple(cand[case["eseed"] % len(cand)])
        e_star = float(er[k])
        mps2, eig2 = mr.app.EspiritCalib(ksp, calib_width=case["cw"], thresh=case["thresh"],
                                         kernel_width=case["kw"], crop=e_star,
                                         output_eigenvalue=True, show_pbar=False).run()
        eig2 = eig2[0] if eig2.ndim == nd + 1 else eig2
        checks += 1
        if float(np.real(eig2[k])) == e_star and np.any(mps2[(slice(None),) + k] != 0):
            return violated(sig, "voxel %s has eigenvalue exactly equal to crop = %.17g but its "
                            "map is not zero" % (k, e_star), wit, mech="crop-boundary")
        nz2 = np.sqrt(np.sum(np.abs(mps2) ** 2, axis=0)) == 0
        if not np.array_equal(nz2, np.real(eig2) <= e_star):
            return violated(sig, "crop = %.17g: zero pattern does not match eigenvalue <= crop"
                            % e_star, wit, mech="crop")
    nrows = (case["cw"] - case["kw"] + 1) ** nd
    ncols = nc * case["kw"] ** nd
    sigdim = (case["kw"] + 2) ** nd
    # at thresh = 1e-3 the whole signal subspace is kept and recovery is exact as soon as a
    # null space exists (ncols >= 1.4 sigdim); at the default 0.02 the weakest signal
    # directions are truncated, and with a thin margin (e.g. 4 coils, kernel 3: 36 columns for
    # 25 signal directions) the converged maps miss by up to 0.1 - the method's own
    # truncation error, so recovery at the default is only decided with ncols >= 2 sigdim
    margin = 1.4 if case["thresh"] <= 1e-3 else 2.0
    if case["kind"] == "bandlimited" and nrows >= 2 * sigdim and ncols >= margin * sigdim:
        kw = case["kw"]
        interior = np.zeros(shape, bool)
        interior[tuple(slice(kw, s - kw) for s in shape)] = True
        sel = interior & (er > 0.99)
        if sel.any():
            tm = np.abs(true) / np.sqrt(np.sum(np.abs(true) ** 2, axis=0))
            live = sel & ~zero
            dev = float(np.max(np.abs(np.abs(mps) - tm)[:, live])) if live.any() else 0.0
            checks += 1
            obs["recovery_dev"] = dev
            # thresh = 1e-3 keeps the whole signal subspace (exact recovery, observed 1e-6);
            # the default 0.02 may drop its weakest directions (observed <= 0.012)
            rtol_ = 1e-3 if case["thresh"] <= 1e-3 else 4e-2
            if not dev <= rtol_ and not case.get("_more_iter"):
                # the per-voxel power iteration (default max_iter = 100) may simply not have
                # converged where the eigenvalue gap is small: recovery is a statement about
                # the converged maps, so decide it with a larger budget before calling it wrong
                orig_init = mr.app.EspiritCalib.__init__

                def init_(self, *a_, **k_):
                    if len(a_) >= 6:               # max_iter given positionally (6th after ksp)
                        a_ = a_[:5] + (1000,) + a_[6:]
                    else:
                        k_.setdefault("max_iter", 1000)
                    return orig_init(self, *a_, **k_)
                mr.app.EspiritCalib.__init__ = init_
                try:
                    r2 = run_case(dict(case, _more_iter=True))
                finally:
                    mr.app.EspiritCalib.__init__ = orig_init
                if r2.get("verdict") == "held":
                    obs["recovery_dev_at_default_max_iter"] = dev
                    obs["recovery_dev"] = r2.get("obs", {}).get("recovery_dev", 0.0)
                    r = held(sig + "|slow-power-iteration", obs, checks)
                    r["tags"] = ["recovery-needed-more-power-iterations"]
                    return r
                return r2
            if not dev <= rtol_:
                return violated(sig, "maps differ from the true rss-normalised maps by %.3g in "
                                "the interior" % dev, wit, mech="recovery", obs=obs)
    return held(sig, obs, checks)
