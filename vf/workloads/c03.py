"""C03 - operator algebra agrees with matrix algebra and advertised shapes.

Deciding monitors:
 (a) reference-model monitor: the tree built with sigpy's algebra (*, +, -, unary -,
     scalar * on either side, Hstack/Vstack/Diag with axis in [-ndim, ndim) or None,
     Conj, .H, .N) is compared with vf.oracles.algebra.Spec, which evaluates the same
     *description* with np.split / np.concatenate / + / - / scalar products and uses the
     real operator only at the leaves; on complex Gaussian data and, for <= 64 inputs,
     on every unit vector (= the dense matrix);
 (b) invariant hook on Linop.apply (exact output shape at every application, nested ones
     included) plus a check of every node's advertised (oshape, ishape) against the
     shapes this harness predicted when it generated the description;
 (c) rejection: generated shape-misfit operands must raise at construction.
Tolerance 1e-10 relative (float64 arithmetic, <= 400 unknowns, depth <= 4).
"""
import numpy as np

from vf import lops
from vf.common import structured, Plan, crandn, held, violated, inconclusive, rng_for, nrm, pick
from vf import repo_tests
from vf.oracles.algebra import Spec
from vf.monitors import STATE

SPEC = {
    "rule": ("cases = random expression trees (depth <= 3 quick / <= 4 thorough) over all "
             "shape-adaptable leaf classes, stacking axes drawn from [-ndim, ndim) and None, "
             "real/complex python and numpy scalars; plus shape-misfit operand sets for "
             "Compose/Add/Hstack/Vstack/Diag; distinct = distinct structural signature; "
             "non-trivial = tree with at least one algebra node and a non-Identity leaf, or a "
             "misfit set"),
    "boundscheck": {"quick": False, "thorough": True},
    "case_timeout": 180.0,
    "deciding_monitors": ["Linop.apply:checked", "in:layout:F", "in:layout:strided", "in:complex64"],
    "assumptions": ["leaves are taken as given (their own semantics are C05-C10's subject)",
                    "CPU/numpy backend"],
}

ALGEBRA = ("Compose", "Add", "Sub", "Neg", "ScaleL", "ScaleR", "Hstack", "Vstack", "Diag",
           "Conj", "H", "N")


def plan(tier, seed):
    P = Plan(3, seed)
    ntrees = 1400 if tier == "quick" else 30000
    rng = P.rng("tree")
    for i in range(ntrees):
        depth = int(rng.integers(1, 4 if tier == "quick" else 5))
        d = lops.gen_tree(rng, depth, None, 5 if tier == "quick" else 6)
        P.add("tree", desc=d, depth=depth,
              dt="complex128" if rng.random() < 0.9 else "complex64")
    # the same algebra on large operands (lengths up to 20, wider stacks, deeper nesting)
    rng = P.rng("bigtree")
    for i in range(120 if tier == "quick" else 3000):
        depth = int(rng.integers(2, 5 if tier == "quick" else 6))
        d = lops.gen_tree(rng, depth, None, 20)
        P.add("bigtree", desc=d, depth=depth, dt="complex128")
    rng = P.rng("nested-stack")
    for i in range(150 if tier == "quick" else 2500):
        P.add("nested-stack", desc=lops.gen_nested_stack(rng), depth=2, dt="complex128")
    # directed stacking cases: every axis in [-ndim, ndim) and None for each stack type
    rng = P.rng("stack")
    nst = 240 if tier == "quick" else 4000
    for i in range(nst):
        kind = pick(rng, ["Hstack", "Vstack", "Diag"])
        for _ in range(20):
            d = {"Hstack": lops._gen_hstack, "Vstack": lops._gen_vstack,
                 "Diag": lops._gen_diag}[kind](rng, 1, None, 5)
            if d is not None and lops._known_oshape(d) and lops._size_ok(d):
                break
        else:
            continue
        P.add("stack", desc=d, depth=1, dt="complex128")
    # expression re-use histories: operators built from an expression S must leave S (and
    # the leaves) acting as before - S = A + B; S + C; S - D; 2 * S; S * A; stacks of shared
    # parts - and S is re-checked after each of them has been built and applied
    rng = P.rng("reuse")
    for i in range(150 if tier == "quick" else 2500):
        shape = [int(rng.integers(1, 5)) for _ in range(int(rng.integers(1, 4)))]
        leaves = [lops.gen_endo(rng, shape, 4) for _ in range(5)]
        P.add("reuse", leaves=leaves, shape=shape, base=pick(rng, ["Add", "Sub", "Compose",
                                                                   "Scale", "Hstack", "Vstack"]),
              order=[int(v) for v in rng.permutation(6)], fortran=bool(rng.random() < 0.3))
    # a scalar applied directly to a leaf that holds an array (a * M, M * a, -M, M - M2), built
    # BEFORE the caller refreshes that array in place: the scaled operator still is a times
    # the leaf as the leaf is now (every leaf holds its array by reference)
    rngr = P.rng("scaled-refresh")
    for i in range(60 if tier == "quick" else 800):
        kind = pick(rngr, ["Multiply", "Multiply", "MatMul", "RightMatMul", "ConvolveData",
                           "ConvolveFilter"])
        d = None
        while d is None:
            d = lops.gen_leaf(rngr, kind, None, 5)
            if d is not None and (d["op"] == "Conj" or (
                    d["op"] == "Multiply" and d.get("mkind") != "array")):
                d = None
        P.add("scaled-refresh", desc=d, a=lops._scalar(rngr))
    rng = P.rng("misfit")
    nm = 200 if tier == "quick" else 3000
    for i in range(nm):
        P.add("misfit", kind=pick(rng, ["Compose", "Compose-rank", "Add-rank", "Add-i", "Add-o",
                                        "Hstack-o", "Hstack-off",
                                        "Hstack-rank", "Vstack-i", "Vstack-off",
                                        "Vstack-rank", "Diag-ioff", "Diag-ooff"]),
              mseed=int(rng.integers(1 << 30)))
    # the same rejection clause in a `python -O` interpreter (validation written as `assert`
    # vanishes there): a share of the misfit sets again, in workers started with -O
    for i in range(nm // 3):
        P.add("misfit-O", kind=pick(rng, ["Compose", "Compose-rank", "Add-rank", "Add-i", "Add-o",
                                          "Hstack-o", "Hstack-off",
                                          "Hstack-rank", "Vstack-i", "Vstack-off",
                                          "Vstack-rank", "Diag-ioff", "Diag-ooff"]),
              mseed=int(rng.integers(1 << 30)), pyopt=True)
    if tier == "thorough" and repo_tests.available():
        # the repository's own test suite as one more workload under the always-on monitors
        P.add("repo-tests", timeout=1800.0, fresh=True)
    return P.cases


def check_shapes(d, A, path="root"):
    """Advertised shapes of the built node vs the shapes predicted by the generator."""
    if d.get("ishape") is not None and [int(v) for v in A.ishape] != list(d["ishape"]):
        return "%s (%s): advertises ishape %s, expected %s" % (path, d["op"], A.ishape,
                                                               d["ishape"])
    if d.get("oshape") is not None and [int(v) for v in A.oshape] != list(d["oshape"]):
        return "%s (%s): advertises oshape %s, expected %s" % (path, d["op"], A.oshape,
                                                               d["oshape"])
    return None


def build_checking(d, path="root"):
    """Build bottom-up, checking every node's advertised shapes; returns (op, err)."""
    import sigpy as sp
    L = sp.linop
    op = d["op"]
    if "parts" in d:
        parts = []
        for i, p in enumerate(d["parts"]):
            a, err = build_checking(p, "%s.%s[%d]" % (path, op, i))
            if err:
                return None, err
            parts.append(a)
        if op == "Compose":
            A = parts[0]
            for p in parts[1:]:
                A = A * p
        elif op == "Add":
            A = parts[0]
            for p in parts[1:]:
                A = A + p
        elif op == "Sub":
            A = parts[0] - parts[1]
        # (the documented signatures called positionally for half of the descriptions)
        elif op == "Hstack":
            A = L.Hstack(parts, d["axis"]) if lops._positional(d) else \
                L.Hstack(parts, axis=d["axis"])
        elif op == "Vstack":
            A = L.Vstack(parts, d["axis"]) if lops._positional(d) else \
                L.Vstack(parts, axis=d["axis"])
        elif op == "Diag":
            A = L.Diag(parts, d["oaxis"], d["iaxis"]) if lops._positional(d) else \
                L.Diag(parts, oaxis=d["oaxis"], iaxis=d["iaxis"])
    elif "A" in d:
        a, err = build_checking(d["A"], path + "." + op)
        if err:
            return None, err
        if op == "Conj":
            A = L.Conj(a)
        elif op == "H":
            A = a.H
        elif op == "N":
            A = a.N
        elif op == "Neg":
            A = -a
        elif op == "ScaleL":
            A = lops.scalar_value(d["a"]) * a
        elif op == "ScaleR":
            A = a * lops.scalar_value(d["a"])
    else:
        A = lops.build(d)
    return A, check_shapes(d, A, path)


def _misfit(kind, rng):
    """Return a thunk constructing an operator from operands that do not fit."""
    import sigpy as sp
    L = sp.linop

    def shp(nd=None):
        nd = nd or int(rng.integers(1, 4))
        return [int(rng.integers(1, 5)) for _ in range(nd)]

    def leaf(ish):
        return lops.build(lops.gen_endo(rng, ish, 4))

    def other(s):
        t = list(s)
        i = int(rng.integers(len(t)))
        t[i] = t[i] + int(rng.integers(1, 3))
        return t
    s = shp()
    if kind == "Compose":
        A, B = leaf(s), leaf(other(s))
        return (lambda: A * B), "Compose %s * %s" % (A, B)
    if kind == "Compose-rank":
        # shapes of different rank where one is a prefix of the other ([4] vs [4, 3])
        t = list(s) + [int(rng.integers(1, 4))]
        if rng.random() < 0.5:
            A, B = leaf(s), leaf(t)
        else:
            A, B = leaf(t), leaf(s)
        return (lambda: A * B), "Compose %s * %s" % (A, B)
    if kind == "Add-rank":
        t = list(s) + [1]
        A, B = leaf(s), leaf(t)
        return (lambda: A + B), "Add %s + %s" % (A, B)
    if kind in ("Add-i", "Add-o"):
        A = leaf(s)
        t = other(s)
        B = L.Resize(s, t) * leaf(t) if kind == "Add-i" else L.Resize(t, s) * leaf(s)
        return (lambda: A + B), "Add %s + %s" % (A, B)
    nd = len(s)
    axis = int(rng.integers(-nd, nd))
    if kind == "Hstack-o":
        A, t = leaf(s), other(s)
        B = L.Resize(t, s) * leaf(s)
        ax = pick(rng, [None, axis])
        return (lambda: L.Hstack([A, B], axis=ax)), "Hstack(axis=%s) %s | %s" % (ax, A, B)
    if kind == "Vstack-i":
        A, t = leaf(s), other(s)
        B = L.Resize(s, t) * leaf(t)
        ax = pick(rng, [None, axis])
        return (lambda: L.Vstack([A, B], axis=ax)), "Vstack(axis=%s) %s | %s" % (ax, A, B)
    if kind in ("Hstack-off", "Vstack-off", "Diag-ioff", "Diag-ooff"):
        if nd < 2:
            s = shp(2)
            nd = 2
            axis = int(rng.integers(-nd, nd))
        t = list(s)
        offs = [i for i in range(nd) if i != axis % nd]
        j = int(pick(rng, offs))
        t[j] += int(rng.integers(1, 3))
        if kind == "Hstack-off":       # same oshape, ishapes differ off-axis
            A = leaf(s)
            B = L.Resize(s, t)
            return (lambda: L.Hstack([A, B], axis=axis)), "Hstack(axis=%s) %s | %s" % (
                axis, A, B)
        if kind == "Vstack-off":
            A = leaf(s)
            B = L.Resize(t, s)
            return (lambda: L.Vstack([A, B], axis=axis)), "Vstack(axis=%s) %s | %s" % (
                axis, A, B)
        if kind == "Diag-ioff":
            A = leaf(s)
            B = L.Resize(s, t)
            return (lambda: L.Diag([A, B], oaxis=axis, iaxis=axis)), \
                "Diag(oaxis=iaxis=%s) %s | %s" % (axis, A, B)
        A = leaf(s)
        B = L.Resize(t, s)
        return (lambda: L.Diag([A, B], oaxis=axis, iaxis=axis)), \
            "Diag(oaxis=iaxis=%s) %s | %s" % (axis, A, B)
    if kind in ("Hstack-rank", "Vstack-rank"):
        A = leaf(s)
        t = [1] + list(s)
        if kind == "Hstack-rank":
            B = L.Reshape(s, t)
            return (lambda: L.Hstack([A, B], axis=axis)), "Hstack(axis=%s) %s | %s" % (
                axis, A, B)
        B = L.Reshape(t, s)
        return (lambda: L.Vstack([A, B], axis=axis)), "Vstack(axis=%s) %s | %s" % (axis, A, B)
    raise ValueError(kind)


def run_reuse(case):
    import sigpy as sp
    L = sp.linop
    rng = rng_for(case)
    shape = tuple(case["shape"])
    ops = [lops.build(d) for d in case["leaves"]]
    A, B, C, D, E = ops
    x = crandn(rng, shape)
    if case["fortran"] and x.ndim >= 2:
        x = np.asfortranarray(x)
    leaf_out = [np.asarray(o(x)) for o in ops]
    a, b, c, d, e = leaf_out
    base = case["base"]
    two = 2.0 - 0.5j
    if base == "Add":
        S, ref = A + B, a + b
    elif base == "Sub":
        S, ref = A - B, a - b
    elif base == "Compose":
        S, ref = A * B, np.asarray(A(np.asarray(B(x))))
    elif base == "Scale":
        S, ref = two * A, two * a
    elif base == "Hstack":
        S = L.Hstack([A, B], axis=0)
        ref = None
    else:
        S = L.Vstack([A, B], axis=None)
        ref = np.concatenate([a.ravel(), b.ravel()])
    sig = "reuse|%s|%dd|%s" % (base, len(shape), "F" if case["fortran"] else "C")
    wit = dict(case)
    xs = x if base != "Hstack" else np.concatenate([x, crandn(rng, shape)], axis=0)
    if ref is None:
        ref = a + np.asarray(B(xs[shape[0]:]))
    tol = 1e-10

    def check(tag):
        got = np.asarray(S(xs))
        sc = nrm(ref) + 1e-3 * nrm(xs)
        if got.shape != ref.shape or nrm(got - ref) > tol * sc:
            return violated(sig, "the expression S = %s no longer acts as the matrix expression "
                            "of its parts %s: rel %.3g" % (
                                base, tag, nrm(got - ref) / max(sc, 1e-300)
                                if got.shape == ref.shape else float("inf")),
                            wit, mech="reuse:" + base)
        for k, (o, want) in enumerate(zip(ops, leaf_out)):
            g2 = np.asarray(o(x))
            if g2.shape != want.shape or nrm(g2 - want) > tol * (nrm(want) + 1e-3 * nrm(x)):
                return violated(sig, "leaf %d (%r) no longer acts as before %s" % (k, o, tag),
                                wit, mech="reuse-leaf:" + base)
        return None
    r = check("right after construction")
    if r:
        return r
    same = base not in ("Hstack", "Vstack")
    builders = [
        ("after S + C was built", lambda: (S + (C if same else S))),
        ("after S - D was built", lambda: (S - (D if same else S))),
        ("after (1-2j) * S and S * 3 were built", lambda: ((1 - 2j) * S, S * 3)),
        ("after S.H and S.N were built and applied", lambda: (S.H(np.asarray(S(xs))),
                                                               S.N(xs))),
        ("after S * E / E * S were built", lambda: ((S * E) if same else None,
                                                    (E * S) if same else None)),
        ("after stacking S with itself", lambda: (L.Vstack([S, S], axis=None),
                                                  L.Hstack([S, S], axis=None))),
    ]
    n = 1
    for j in case["order"]:
        tag, f = builders[j]
        try:
            out = f()
            for t in (out if isinstance(out, tuple) else (out,)):
                if isinstance(t, L.Linop):
                    t(crandn(rng, tuple(t.ishape)))       # apply the new expression once
        except Exception as e_:
            inn = e_
            while inn.__cause__ is not None:
                inn = inn.__cause__
            return violated(sig, "building / applying an expression from S raised %s: %s (%s)"
                            % (type(inn).__name__, str(inn)[:150], tag), wit,
                            mech="reuse-raised:" + base)
        r = check(tag)
        n += 1
        if r:
            return r
    return held(sig, {"rechecks": n}, n, True)


def run_case(case):
    if case["gen"] == "repo-tests":
        return repo_tests.run("C03")
    res = run_one(case)
    why = str(res.get("why", ""))
    if res.get("verdict") == "violated" and case.get("dt") == "complex64" and (
            "nan" in why or "inf" in why):
        # possible float32 overflow (un-normalised kernel weights applied several times):
        # decide the same tree in double precision
        r64 = run_one(dict(case, dt="complex128"))
        if r64.get("verdict") == "held":
            return {"verdict": "inconclusive", "sig": "c64-overflow", "nontrivial": False,
                    "why": "single-precision overflow (holds in double precision): " + why[:120]}
        return r64
    return res


def run_refresh(case, rng):
    from vf.monitors import linop_mon
    desc = case["desc"]
    a = lops.scalar_value(case["a"])
    sig = "scaled-refresh|" + desc["op"]
    wit = {"desc": desc, "a": case["a"]}
    try:
        Lf = lops.build(desc)
        L2 = lops.build(dict(desc, aseed=int(desc.get("aseed", 0)) + 1)) if "aseed" in desc \
            else lops.build(desc)
        built = {"a * L": a * Lf, "L * a": Lf * a, "-L": -Lf, "L - L2": Lf - L2,
                 "(a * L).H": (a * Lf).H}
    except Exception as e:
        return inconclusive("constructor raised %s" % type(e).__name__, sig="ctor-raised")
    caps = [(n_, v_) for n_, v_ in linop_mon.captured_tree(Lf).values()
            if v_.flags.writeable and v_.dtype.kind in "fc" and v_.size]
    if not caps:
        return inconclusive("leaf captured no writeable array", sig="no-captured-array")
    for n_, v_ in caps:
        v_.reshape(-1)[::2] *= v_.dtype.type(-0.6)
        v_.reshape(-1)[1::2] *= v_.dtype.type(1.7)
    x = crandn(rng, tuple(Lf.ishape), np.complex128)
    y = crandn(rng, tuple(Lf.oshape), np.complex128)
    Lx = np.asarray(Lf(x))
    want = {"a * L": a * Lx, "L * a": np.asarray(Lf(np.asarray(a * x))), "-L": -Lx,
            "L - L2": Lx - np.asarray(L2(x)), "(a * L).H": np.conj(a) * np.asarray(Lf.H(y))}
    checks = 0
    for nm_, op in built.items():
        got = np.asarray(op(y if nm_.endswith(".H") else x))
        ref = want[nm_]
        checks += 1
        sc = nrm(ref) + 1e-3 * (nrm(x) + nrm(y)) + 1e-300
        if got.shape != ref.shape or not nrm(got - ref) <= 1e-10 * sc:
            return violated(sig, "%s was built before the leaf's array (%s) was refreshed in "
                            "place and no longer equals the expression of its parts: rel %.3g"
                            % (nm_, ", ".join(n for n, _ in caps)[:80],
                               nrm(got - ref) / sc if got.shape == ref.shape else np.inf), wit,
                            mech="scaled-refresh")
    return held(sig, {"forms": checks}, checks, True)


def run_one(case):
    rng = rng_for(case)
    if case["gen"] == "scaled-refresh":
        return run_refresh(case, rng)
    if case["gen"] == "reuse":
        return run_reuse(case)
    if case["gen"] in ("misfit", "misfit-O"):
        mrng = np.random.default_rng(case["mseed"])
        thunk, what = _misfit(case["kind"], mrng)
        sig = "misfit|" + case["kind"]
        if case["gen"] == "misfit-O":
            import sys
            if not sys.flags.optimize:
                return inconclusive("this worker does not run under python -O", sig="misfit-O")
            sig = "misfit-O|" + case["kind"]
            what = "[python -O] " + what
        try:
            A = thunk()
        except Exception as e:
            return held(sig + "|" + type(e).__name__, {"rejected_with": type(e).__name__}, 1)
        return violated(sig, "shape-misfit operands were combined instead of rejected: %s -> "
                        "%r" % (what, A), {"kind": case["kind"], "mseed": case["mseed"],
                                           "what": what}, mech="misfit-accepted:" + case["kind"])
    desc = case["desc"]
    dt = np.dtype(case["dt"])
    sig = lops.signature(desc) + "|" + dt.name
    leafs = lops.leaf_ops(desc)
    nontrivial = desc["op"] in ALGEBRA and any(l != "Identity" for l in leafs)
    wit = {"desc": desc, "dtype": dt.name}
    try:
        if sum(case["rs"]) % 2:
            lops.prime_siblings(desc)     # construction history (see lops.prime_siblings)
        A, err = build_checking(desc)
    except Exception as e:
        return violated(sig, "constructing a shape-compatible tree raised %s: %s" % (
            type(e).__name__, str(e)[:300]), wit, mech="ctor-raised")
    if err:
        return violated(sig, "advertised shape differs from the predicted one: " + err, wit,
                        mech="advertised-shape")
    spec = Spec(lops.build, lops.scalar_value)
    tol = 1e-10 if dt == np.complex128 else 2e-4
    ish, osh = tuple(desc["ishape"]), tuple(desc["oshape"])
    checks = 0
    obs = {}
    try:
        worst = 0.0
        # a rejected application (wrong rank) must leave nothing behind in the expression
        for bad_ in (tuple(ish) + (2,), tuple(ish)[:-1], tuple(ish)[1:]):
            try:
                A(np.ones(bad_, dt))
            except Exception:
                pass
        held_first = None
        for k in range(3):
            with structured((sum(case["rs"]) // 3) % 10 if sum(case["rs"]) % 2 else 0):
                x = crandn(rng, ish, dt)
            if k == 1 and len(ish) >= 2:
                x = np.asfortranarray(x)            # memory-layout variant
            if k == 2:
                # real data: a tree whose parts are real and complex (a*A + B with complex
                # a, a real operator next to an FFT) still acts as its matrix expression
                x = np.ascontiguousarray(x.real)
            STATE.peak = 0.0
            got = np.asarray(A(x))
            if k == 0:
                held_first = (got, got.copy())
            elif held_first is not None and not np.array_equal(held_first[0], held_first[1],
                                                               equal_nan=True):
                return violated(sig, "the array returned by the first application changed "
                                "when the expression was applied to other data (results share "
                                "storage)", wit, mech="result-alias")
            ref, noise = spec.noise(desc, x)
            ref = np.asarray(ref)
            peak = STATE.peak     # largest intermediate ||.|| seen by the apply hook
            checks += 1
            if tuple(got.shape) != osh:
                return violated(sig, "output shape %s, advertised %s" % (got.shape, osh), wit,
                                mech="oshape")
            if got.shape != ref.shape:
                return violated(sig, "output shape %s, matrix expression gives %s" % (
                    got.shape, ref.shape), wit, mech="oshape-vs-spec")
            # floor: trees whose parts cancel exactly leave round-off of the (possibly
            # much larger) intermediates; 1e-10 * 1e-3 * peak is ~1e3 eps * peak
            # plus the modelled round-off level of this tree on this input (x1e3 head-room):
            # a late stage with a large gain amplifies the 1e-16 differences that come from
            # the two evaluation orders
            sc = nrm(ref) + 1e-3 * max(nrm(x), peak) + 1e13 * noise
            e = nrm(got - ref) / sc if sc > 0 else nrm(got - ref)
            worst = max(worst, e)
            # (real data: sigpy's fft / nufft convert non-complex input to complex64, so a
            # tree holding one of them is only single-precision accurate on real data)
            if not e <= (tol if k < 2 else max(tol, 2e-4)):
                return violated(sig, "tree differs from the matrix expression of its parts: "
                                "rel %.3g (tol %.1g)" % (e, tol), wit, mech="value",
                                obs={"rel": e})
        obs["rel"] = worst
        n = int(np.prod(ish))
        if dt == np.complex128 and n <= 64 and int(np.prod(osh)) <= 256:
            STATE.peak = 0.0
            M = lops.dense(A)
            cols = []
            for j in range(n):
                e_ = np.zeros(n, np.complex128)
                e_[j] = 1
                cols.append(np.asarray(spec.apply(desc, e_.reshape(ish))).ravel())
            R = np.stack(cols, axis=1)
            checks += 1
            dmax = float(np.max(np.abs(M - R))) if M.size else 0.0
            e1 = np.zeros(n, np.complex128)
            e1[0] = 1
            _, noise1 = spec.noise(desc, e1.reshape(ish))
            sc = max(1.0, float(np.max(np.abs(R))) if R.size else 1.0, 1e-3 * STATE.peak,
                     1e13 * noise1)
            obs["dense"] = dmax / sc
            sig += "|dense"
            if not dmax <= 1e-10 * sc * n:
                return violated(sig, "dense matrix differs from the block matrix assembled "
                                "from the parts: max entry gap %.3g" % dmax, wit,
                                mech="dense", obs=obs)
    except Exception as e:
        inn = e
        while inn.__cause__ is not None:
            inn = inn.__cause__
        return violated(sig, "applying a shape-compatible tree raised %s: %s" % (
            type(inn).__name__, str(inn)[:300]), wit, mech="raised:" + type(inn).__name__)
    return held(sig, obs, checks, nontrivial)
