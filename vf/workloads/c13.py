"""C13 - proximal-gradient and primal-dual solvers converge as their theory guarantees.

Deciding monitor: offline checkers over recorded update histories (state snapshots at the
Alg API boundary after every update) of the real sigpy.alg.GradientMethod and
sigpy.alg.PrimalDualHybridGradient, against certified reference solutions
(vf.oracles.opt: closed form or restarted FISTA + active-set polish, accepted only with a
prox-gradient fixed-point residual <= 1e-10; otherwise the case is inconclusive).

GradientMethod (f = 0.5||Ax-y||^2 or Nesterov's worst-case quadratic, g in {0, l1, l2^2, box},
alpha in {1, 0.999, 0.5}/L):
  G1 not accelerated: F(x_k) <= F(x_{k-1}) + 1e-10 max(1,|F|) for every prefix;
  G2 F(x_k) - F* <= ||x0-x*||^2 / (2 alpha k) (1+1e-6) + 1e-9        (ISTA bound);
  G3 accelerated: F(x_k) - F* <= 2||x0-x*||^2 / (alpha (k+1)^2) (1+1e-6) + 1e-9   (FISTA bound);
  G4 alg.x is the caller's array, updated in place.
PrimalDualHybridGradient (min_x 0.5||Ax-y||^2 + g(x), scalar or array steps with
||Sigma^(1/2) A T^(1/2)|| <= 1):
  P5 saddle points are fixed (also with gamma_primal/gamma_dual > 0);
  P6 constant steps: ||w_k - w*||_M^2 never increases, M = [[T^-1, -A^H], [-A, Sigma^-1]],
     w_k = (x_k, u_{k+1}) (sigpy updates the dual first with the extrapolated primal, so the
     proximal-point iteration lives on the shifted pair);
  P7a constant steps: r_k = ||w_{k+1} - w_k||_M^2 is non-increasing and r_k <= d_0/(k+1);
  P7b strongly convex instances (also with acceleration): ||x_K - x*|| <= rho ||x0 - x*|| after
     K updates (bounded progress; K and rho fixed per class with >= 50x slack);
  P8 x and u are the caller's arrays, updated in place.
"""
import numpy as np

from vf.common import Plan, crandn, held, violated, inconclusive, rng_for, nrm, pick
from vf.oracles import opt as OPT

SPEC = {
    "rule": ("cases = (solver, problem class [random well-/ill-conditioned least squares, "
             "Nesterov worst-case quadratic], g in {0, l1, l2^2, box}, real/complex, step "
             "fraction of 1/L or of the PDHG bound, scalar or array steps, accelerate / gamma "
             "settings, start [zero / random / saddle point]); distinct = those classes; "
             "non-trivial = at least 2 unknowns"),
    "boundscheck": {"quick": False, "thorough": False},
    "case_timeout": 240.0,
    "deciding_monitors": ["update:GradientMethod", "update:PrimalDualHybridGradient", "in:layout:strided"],
    "assumptions": ["reference minimisers certified to 1e-10 (prox-gradient residual)",
                    "PDHG distance in the shifted-pair M-norm (DESIGN.md C13)"],
}


def plan(tier, seed):
    P = Plan(13, seed)
    quick = tier == "quick"
    rng = P.rng("gm")
    for i in range(220 if quick else 3000):
        g = pick(rng, ["none", "l1", "l2", "box"])
        P.add("gm", n=int(rng.integers(2, 9)) if i % 6 else int(rng.integers(16, 41)),
              cplx=bool(g != "box" and rng.random() < 0.5),
              g=g, cond=pick(rng, ["well", "well", "ill"]), frac=pick(rng, [1.0, 0.999, 0.5]),
              acc=bool(rng.random() < 0.5), iters=int(pick(rng, [30, 100, 200])),
              x0=pick(rng, ["zero", "rand"]))
    # long accelerated histories on moderately ill-conditioned problems (smallest singular
    # value 1e-2..1e-1): where a momentum coefficient that is too large stops contracting
    # and crosses the 1/k^2 bound (after several hundred updates)
    for i in range(60 if quick else 600):
        g = pick(rng, ["none", "none", "l1", "l2"])
        P.add("gm", n=int(rng.integers(2, 9)), cplx=bool(rng.random() < 0.5), g=g, cond="mid",
              frac=pick(rng, [1.0, 0.999]), acc=True, iters=600, x0="rand")
    # denoising-type problems f = 1/2||x - b||^2 (identity operator) started exactly where
    # grad f vanishes - at the data, or at 0 for zero data with a box that excludes 0 - while g
    # still has to act: the first prox step must move the iterate
    for i in range(30 if quick else 300):
        P.add("gm", n=int(rng.integers(2, 9)), cplx=bool(i % 2 and i % 3 != 0),
              g=pick(rng, ["l1", "l2", "box"]) if i % 3 else "box", cond="well", frac=pick(
                  rng, [1.0, 0.999, 0.5]), acc=bool(rng.random() < 0.5),
              iters=int(pick(rng, [30, 100])), x0="zero",
              special="zero-data-box" if i % 3 == 0 else "start-at-data")
    for i in range(12 if quick else 60):
        P.add("nesterov", k=int(pick(rng, [20, 50, 100, 200])), acc=bool(i % 2 == 0),
              frac=pick(rng, [1.0, 0.999, 0.5]), L=float(10 ** rng.uniform(-1, 2)))
    # variables of realistic size (more than 2**16 unknowns) in mixed memory layouts
    rngb = P.rng("big")
    for i in range(8 if quick else 40):
        P.add("big", shape=pick(rngb, [[200, 400], [256, 257], [70, 40, 30], [300, 300]]),
              cplx=bool(rngb.random() < 0.5), solver=pick(rngb, ["gm", "gm", "pdhg"]),
              g=pick(rngb, ["l1", "l2"]), lam=float(10 ** rngb.uniform(-1.5, 0)),
              frac=pick(rngb, [1.0, 0.5]), acc=bool(rngb.random() < 0.5),
              iters=int(pick(rngb, [12, 25])) if True else 0,
              xlay=pick(rngb, ["F", "F", "C", "T"]), glay=pick(rngb, ["C", "C", "F", "T"]))
    rng = P.rng("pdhg")
    for i in range(260 if quick else 3500):
        g = pick(rng, ["none", "l1", "l2", "box"])
        big = i % 6 == 5               # size-dependent regime: 16..40 unknowns / rows
        P.add("pdhg", n=int(rng.integers(16, 41) if big else rng.integers(2, 8)),
              m=int(rng.integers(16, 41) if big else rng.integers(2, 10)),
              cplx=bool(g != "box" and rng.random() < 0.5), g=g,
              steps=pick(rng, ["scalar", "scalar", "array"]),
              frac=pick(rng, [1.0, 0.9, 0.5]), ratio=float(10 ** rng.uniform(-1, 1)),
              start=pick(rng, ["zero", "rand", "saddle", "saddle"]),
              gamma=pick(rng, ["none", "none", "primal", "dual"]),
              iters=int(pick(rng, [40, 120])),
              via=pick(rng, ["func", "linop"]) if i % 5 else pick(
                  rng, ["identity", "identity-fn", "reshape", "transpose"]))
    for i in range(40 if quick else 400):
        P.add("pdhg-conv", n=int(rng.integers(2, 8)), m=int(rng.integers(8, 12)),
              cplx=bool(rng.random() < 0.5), gamma=pick(rng, ["none", "primal", "dual"]),
              lam=float(10 ** rng.uniform(-0.5, 0.5)))
    return P.cases


def lsq_instance(rng, m, n, cplx, cond):
    dt = np.complex128 if cplx else np.float64
    U, _ = np.linalg.qr(crandn(rng, [m, m], dt))
    V, _ = np.linalg.qr(crandn(rng, [n, n], dt))
    k = min(m, n)
    smin = {"ill": 1e-3, "well": 0.3}.get(cond)
    if smin is None:
        smin = float(10 ** rng.uniform(-2, -1))
    sv = np.geomspace(1.0, smin, k)
    M = (U[:, :k] * sv) @ V[:, :k].conj().T * float(10 ** rng.uniform(-0.5, 0.5))
    y = crandn(rng, [m], dt)
    return M, y


def make_g(rng, kind, n):
    if kind == "none":
        return ("none",)
    if kind == "l1":
        return ("l1", float(10 ** rng.uniform(-2, 0)))
    if kind == "l2":
        return ("l2", float(10 ** rng.uniform(-2, 0.5)))
    lo = -np.abs(rng.standard_normal(n)) * 0.5
    return ("box", lo, lo + np.abs(rng.standard_normal(n)))


def sigpy_prox(g, shape):
    import sigpy as sp
    if g[0] == "none":
        return None
    if g[0] == "l1":
        return sp.prox.L1Reg(shape, g[1])
    if g[0] == "l2":
        return sp.prox.L2Reg(shape, g[1])
    return sp.prox.BoxConstraint(shape, g[1], g[2])


def run_gm(case):
    import sigpy as sp
    rng = rng_for(case)
    n, cplx = case["n"], case["cplx"]
    m = n + int(rng.integers(0, 4))
    M, y = lsq_instance(rng, m, n, cplx, case["cond"])
    g = make_g(rng, case["g"], n)
    special = case.get("special")
    if special:
        M = np.eye(n, dtype=M.dtype)
        y = y[:n].copy()
        if special == "zero-data-box":
            y = np.zeros(n, M.dtype)
            lo = 0.2 + np.abs(rng.standard_normal(n))
            g = ("box", lo, lo + 0.5 + np.abs(rng.standard_normal(n)))
        elif g[0] == "box":
            y = np.real(y)
    sig = "|".join(map(str, ["gm", special or "", case["g"], "c" if cplx else "r", case["cond"], case["frac"],
                             "acc" if case["acc"] else "plain", case["x0"]]))
    wit = dict(case)
    xs, cert = OPT.solve_composite(M, y, g)
    if not cert <= 1e-10:
        return inconclusive("reference minimiser not certified (residual %.2g)" % cert)
    Fs = OPT.objective(M, y, g, xs)
    L = float(np.linalg.eigvalsh(M.conj().T @ M)[-1])
    alpha = case["frac"] / L
    dt = np.complex128 if cplx else np.float64
    x0 = np.zeros(n, dt) if case["x0"] == "zero" else crandn(rng, [n], dt)
    if g[0] == "box" and not special:
        x0 = np.minimum(np.maximum(x0, g[1]), g[2])          # F(x0) finite
    if special == "start-at-data":
        x0 = y.astype(dt).copy()          # grad f(x0) = x0 - b = 0 exactly
    x = x0.copy()
    single = sum(case["rs"]) % 7 == 3 and not special
    slack = 0.0
    if single:
        # single-precision iterate (float32 / complex64) with a double-precision step and prox
        # parameters: still updated in place, bounds with single-precision slack
        x = x.astype(np.complex64 if cplx else np.float32)
        x0 = x.astype(dt)
        alpha = np.float64(alpha)
        slack = 2e-4
    lay = case["rs"][-1] % 3
    if lay == 1 and not single:       # caller's x is a strided view; step is a NumPy scalar
        big = np.zeros(2 * n, dt)
        big[::2] = x
        x = big[::2]
        alpha = np.float64(alpha)
    gradf = lambda v: M.conj().T @ (M @ v - y)               # noqa: E731
    # (the flag as a NumPy boolean - e.g. the result of a comparison - in half of the cases)
    accflag = np.bool_(case["acc"]) if sum(case["rs"]) % 2 else bool(case["acc"])
    alg = sp.alg.GradientMethod(gradf, x, alpha, proxg=sigpy_prox(g, [n]),
                                accelerate=accflag, max_iter=case["iters"], tol=0)
    d0 = float(np.sum(np.abs(x0 - xs) ** 2))
    Fprev = OPT.objective(M, y, g, x0)
    k = 0
    worst = 0.0
    checks = 0
    if single:
        sig += "|single"
    forked = None
    if sum(case["rs"]) % 5 == 2 and not single and lay != 1:
        # the solver is forked with copy.deepcopy before it runs (a checkpoint, variants from
        # a common warm start): the copy is a solver of its own - same guarantees on its own
        # x, and the original's array is not touched while the copy runs
        import copy
        forked = (alg, x)
        alg = copy.deepcopy(alg)
        x = alg.x
        sig += "|deepcopy"
    sched = (not case["acc"]) and sum(case["rs"]) % 5 == 4 and not single and forked is None
    if sched:
        sig += "|alpha-reassigned"
    while not alg.done():
        if sched and k == 3:
            # a hand-written step schedule: the public alpha re-assigned on the live solver
            # (every value <= 1/L): each update still is a descent step
            alg.alpha = alpha * 0.5
        alg.update()
        k += 1
        if single and x.dtype != (np.complex64 if cplx else np.float32):
            return violated(sig, "the caller's single-precision array changed its element type",
                            wit, mech="not-in-place")
        if alg.x is not x:
            return violated(sig, "alg.x is no longer the caller's array", wit,
                            mech="not-in-place")
        Fk = OPT.objective(M, y, g, x.astype(dt) if single else x)
        if single and g[0] == "box" and not np.isfinite(Fk):
            # rounding to float32 can put a clipped entry 1 ulp outside the double bounds
            xc_ = np.minimum(np.maximum(x.astype(dt), g[1]), g[2])
            if np.max(np.abs(xc_ - x.astype(dt))) <= 1e-6 * (1 + np.max(np.abs(xc_))):
                Fk = OPT.objective(M, y, g, xc_)
        gap = Fk - Fs
        checks += 2
        if not np.isfinite(Fk):
            return violated(sig, "iterate %d left the domain of g (F = inf)" % k, wit,
                            mech="infeasible")
        if not case["acc"]:
            if not Fk <= Fprev + (1e-10 + slack) * max(1.0, abs(Fprev)):
                return violated(sig, "objective increased at update %d: %.12g -> %.12g with "
                                "alpha = %.3g/L" % (k, Fprev, Fk, case["frac"]), wit,
                                mech="gm-monotone")
            bound = d0 / (2 * (alpha * 0.5 if sched else alpha) * k) * (1 + 1e-6) + (
                1e-9 + slack) * max(1.0, abs(Fs))
            name = "ISTA"
        else:
            bound = 2 * d0 / (alpha * (k + 1) ** 2) * (1 + 1e-6) + (1e-9 + slack) * max(
                1.0, abs(Fs))
            name = "FISTA"
        if bound > 0:
            worst = max(worst, gap / bound)
        if not gap <= bound:
            return violated(sig, "objective gap %.6g after %d updates exceeds the %s bound "
                            "%.6g" % (gap, k, name, bound), wit,
                            mech="gm-rate-" + name.lower())
        Fprev = Fk
        if k > case["iters"] + 2:
            return violated(sig, "more than max_iter updates", wit, mech="max_iter")
    if forked is not None:
        checks += 1
        if not np.array_equal(forked[1], x0) or forked[0].iter != 0:
            return violated(sig, "running a deep copy of the solver changed the original "
                            "(its x moved by %.3g, iter = %d)" % (
                                float(np.max(np.abs(forked[1] - x0))), forked[0].iter), wit,
                            mech="deepcopy-shares-state")
    return held(sig, {"gap/bound": worst, "updates": k}, checks, True)


def run_big(case):
    """Variables of realistic size (an image: more than 2**16 unknowns) in mixed memory
    layouts: f = 1/2 ||d * x - y||^2 with an element-wise multiplier d (L = max |d|^2) and
    g = lam ||x||_1 or lam/2 ||x||^2, whose minimiser is known in closed form."""
    import sigpy as sp
    rng = rng_for(case)
    shape = case["shape"]
    cplx = case["cplx"]
    dt = np.complex128 if cplx else np.float64
    d = (0.5 + rng.random(shape)) * (np.exp(2j * np.pi * rng.random(shape)) if cplx else
                                      np.sign(rng.standard_normal(shape)))
    d = d.astype(dt)
    y = crandn(rng, shape, dt)
    lam = float(case["lam"])
    L = float(np.max(np.abs(d)) ** 2)
    alpha = case["frac"] / L
    sig = "big|%s|%s|%s|%s|%s" % (case["solver"], case["g"], "c" if cplx else "r",
                                  case["xlay"], case["glay"])
    wit = dict(case)
    b_ = np.conj(d) * y
    if case["g"] == "l1":
        mag = np.maximum(np.abs(b_) - lam, 0) / np.abs(d) ** 2
        xs = mag * b_ / np.maximum(np.abs(b_), 1e-300)
        proxg = sp.prox.L1Reg(shape, lam)
        gfun = lambda v: lam * float(np.sum(np.abs(v)))            # noqa: E731
    else:
        xs = b_ / (np.abs(d) ** 2 + lam)
        proxg = sp.prox.L2Reg(shape, lam)
        gfun = lambda v: lam / 2 * float(np.sum(np.abs(v) ** 2))   # noqa: E731
    F = lambda v: 0.5 * float(np.sum(np.abs(d * v - y) ** 2)) + gfun(v)   # noqa: E731
    Fs = F(xs)
    x0 = crandn(rng, shape, dt)

    def lay(a, kind):
        if kind == "F":
            return np.asfortranarray(a)
        if kind == "T":
            return np.ascontiguousarray(a.T).T
        return np.ascontiguousarray(a)
    x = lay(x0.copy(), case["xlay"])
    checks = 0
    if case["solver"] == "gm":
        def gradf(v):
            return lay(np.conj(d) * (d * v - y), case["glay"])
        alg = sp.alg.GradientMethod(gradf, x, alpha, proxg=proxg, accelerate=case["acc"],
                                    max_iter=case["iters"], tol=0)
        d0 = float(np.sum(np.abs(x0 - xs) ** 2))
        Fprev = F(x0)
        k = 0
        worst = 0.0
        while not alg.done():
            alg.update()
            k += 1
            if alg.x is not x:
                return violated(sig, "alg.x is no longer the caller's array", wit,
                                mech="not-in-place")
            Fk = F(x)
            gap = Fk - Fs
            checks += 2
            if not case["acc"]:
                if not Fk <= Fprev + 1e-10 * max(1.0, abs(Fprev)):
                    return violated(sig, "objective increased at update %d: %.12g -> %.12g "
                                    "(%d unknowns, x %s-ordered, gradient %s-ordered)" % (
                                        k, Fprev, Fk, x.size, case["xlay"], case["glay"]), wit,
                                    mech="gm-monotone")
                bound = d0 / (2 * alpha * k) * (1 + 1e-6) + 1e-9 * max(1.0, abs(Fs))
            else:
                bound = 2 * d0 / (alpha * (k + 1) ** 2) * (1 + 1e-6) + 1e-9 * max(1.0, abs(Fs))
            worst = max(worst, gap / bound)
            if not gap <= bound:
                return violated(sig, "objective gap %.6g after %d updates exceeds the bound "
                                "%.6g (%d unknowns, x %s-ordered, gradient %s-ordered)" % (
                                    gap, k, bound, x.size, case["xlay"], case["glay"]), wit,
                                mech="gm-rate")
            Fprev = Fk
        return held(sig, {"gap/bound": worst, "updates": k, "unknowns": int(x.size)}, checks,
                    True)
    # primal-dual: A = Multiply(d), f*(u) from the least-squares data term
    A = sp.linop.Multiply(shape, d)
    u = lay(np.zeros(shape, dt), case["glay"])
    nA = float(np.max(np.abs(d)))
    tau = sigma = 0.95 / nA
    alg = sp.alg.PrimalDualHybridGradient(sp.prox.L2Reg(shape, 1, y=-y), proxg, A, A.H, x, u,
                                          tau, sigma, max_iter=4 * case["iters"], tol=0)
    e0 = nrm(x0 - xs)
    prev = None
    while not alg.done():
        alg.update()
        if alg.x is not x or alg.u is not u:
            return violated(sig, "alg.x / alg.u is no longer the caller's array", wit,
                            mech="not-in-place")
    eK = nrm(x - xs)
    checks += 1
    if case["g"] == "l2" and not eK <= 0.05 * e0:
        return violated(sig, "no convergence to the minimiser: ||x_K - x*|| / ||x0 - x*|| = "
                        "%.3g after %d updates (%d unknowns, x %s-ordered, u %s-ordered)" % (
                            eK / e0, 4 * case["iters"], x.size, case["xlay"], case["glay"]), wit,
                        mech="pdhg-convergence")
    if not F(x) <= F(x0) + 1e-9 * abs(F(x0)) or not eK <= e0 * (1 + 1e-9):
        return violated(sig, "the primal-dual run ended further from the minimiser than it "
                        "started (%.3g -> %.3g)" % (e0, eK), wit, mech="pdhg-convergence")
    return held(sig, {"err_ratio": eK / e0, "unknowns": int(x.size)}, checks, True)


def run_nesterov(case):
    import sigpy as sp
    k, L = case["k"], case["L"]
    n = 2 * k + 1
    T = 2 * np.eye(n) - np.eye(n, k=1) - np.eye(n, k=-1)
    e1 = np.zeros(n)
    e1[0] = 1
    f = lambda v: L / 4 * (0.5 * v @ T @ v - v[0])          # noqa: E731
    gradf = lambda v: L / 4 * (T @ v - e1)                  # noqa: E731
    xs = 1 - np.arange(1, n + 1) / (n + 1)
    Fs = f(xs)
    x = np.zeros(n)
    alpha = case["frac"] / L                 # ||L/4 T|| < L
    alg = sp.alg.GradientMethod(gradf, x, alpha, accelerate=case["acc"], max_iter=k, tol=0)
    sig = "nesterov|k%d|%s|%s" % (k, "acc" if case["acc"] else "plain", case["frac"])
    wit = dict(case)
    d0 = float(np.sum(xs ** 2))
    j = 0
    worst = 0.0
    Fprev = f(x)
    while not alg.done():
        alg.update()
        j += 1
        Fj = f(x)
        gap = Fj - Fs
        if case["acc"]:
            bound = 2 * d0 / (alpha * (j + 1) ** 2) * (1 + 1e-6) + 1e-9 * abs(Fs)
        else:
            bound = d0 / (2 * alpha * j) * (1 + 1e-6) + 1e-9 * abs(Fs)
            if not Fj <= Fprev + 1e-10 * max(1.0, abs(Fprev)):
                return violated(sig, "objective increased at update %d" % j, wit,
                                mech="gm-monotone")
        worst = max(worst, gap / bound)
        if not gap <= bound:
            return violated(sig, "worst-case quadratic: gap %.6g after %d updates exceeds the "
                            "%s bound %.6g" % (gap, j, "FISTA" if case["acc"] else "ISTA",
                                               bound), wit,
                            mech="gm-rate-" + ("fista" if case["acc"] else "ista"))
        Fprev = Fj
    # lower bound for any first-order method: sanity that the instance is really hard
    return held(sig, {"gap/bound": worst, "updates": j}, 2 * j, True)


def mnorm2(dx, du, Tinv, Sinv, A):
    return float(np.real(np.vdot(dx, Tinv * dx)) + np.real(np.vdot(du, Sinv * du))
                 - 2 * np.real(np.vdot(du, A @ dx)))


def pdhg_setup(case, rng, g=None, M=None, y=None):
    import sigpy as sp
    n, m, cplx = case["n"], case["m"], case["cplx"]
    dt = np.complex128 if cplx else np.float64
    via = case.get("via", "func")
    if via in ("identity", "identity-fn", "reshape", "transpose"):
        # denoising-type f(Ax) + g(x) with an operator whose adjoint hands back its argument
        # (or a view of it): Identity, a pass-through function, Reshape, Transpose
        m = case["m"] = n if via != "transpose" or n % 2 == 0 else n + 1
        n = case["n"] = m
        M = np.eye(n, dtype=dt)
        if via == "transpose":
            P_ = np.arange(n).reshape(2, n // 2).T.ravel()
            M = np.eye(n, dtype=dt)[P_]
        y = crandn(rng, [m], dt)
    if M is None:
        M, y = lsq_instance(rng, m, n, cplx, "well")
    nA = float(np.linalg.norm(M, 2))
    frac = case.get("frac", 0.9)
    intsteps = (case.get("steps", "scalar") == "scalar" and frac == 1.0
                and sum(case.get("rs", [0])) % 3 == 0)
    if intsteps:
        # ||A|| = 1 and the step sizes 0.5 and 2, the dual one handed over as an integer
        M = M / nA
        nA = 1.0
    if case.get("steps", "scalar") == "scalar":
        r = case.get("ratio", 1.0)
        tau = float(np.sqrt(frac) / nA * r)
        sigma = float(np.sqrt(frac) / nA / r)
        if intsteps:
            tau, sigma = 0.5, 2
        Tv, Sv = np.full(n, float(tau)), np.full(m, float(sigma))
    else:
        Tv = 10 ** rng.uniform(-0.5, 0.5, n)
        Sv = 10 ** rng.uniform(-0.5, 0.5, m)
        sc = float(np.linalg.norm((np.sqrt(Sv)[:, None] * M) * np.sqrt(Tv)[None, :], 2))
        Tv = Tv * np.sqrt(frac) / sc
        Sv = Sv * np.sqrt(frac) / sc
        tau, sigma = Tv.copy(), Sv.copy()
    if via == "linop":
        Aop = sp.linop.MatMul([n, 1], M)
        A, AH = Aop, Aop.H
        shape_x, shape_u = [n, 1], [m, 1]
        if np.ndim(tau):
            tau, sigma = tau.reshape(n, 1), sigma.reshape(m, 1)
    elif via in ("identity", "reshape", "transpose"):
        if via == "identity":
            Aop = sp.linop.Identity([n])
            shape_x, shape_u = [n], [n]
        elif via == "reshape":
            Aop = sp.linop.Reshape([n, 1], [n])
            shape_x, shape_u = [n], [n, 1]
            if np.ndim(sigma):
                sigma = sigma.reshape(n, 1)
        else:
            Aop = sp.linop.Transpose([2, n // 2])
            shape_x, shape_u = [2, n // 2], [n // 2, 2]
            if np.ndim(tau):
                tau, sigma = tau.reshape(shape_x), sigma.reshape(shape_u)
        A, AH = Aop, Aop.H
    elif via == "identity-fn":
        A = lambda v: v                        # noqa: E731
        AH = lambda v: v                       # noqa: E731
        shape_x, shape_u = [n], [n]
    else:
        A = lambda v: M @ v                    # noqa: E731
        AH = lambda v: M.conj().T @ v          # noqa: E731
        shape_x, shape_u = [n], [m]
    proxfc = sp.prox.L2Reg(shape_u, 1, y=-y.reshape(shape_u))
    if sum(case.get("rs", [0])) % 2 == 1:
        # the same conjugate prox obtained through Moreau's identity from prox_f itself
        proxfc = sp.prox.Conj(sp.prox.L2Reg(shape_u, 1, y=y.reshape(shape_u)))
    return M, y, nA, tau, sigma, Tv, Sv, A, AH, shape_x, shape_u, proxfc, dt


def run_pdhg(case):
    import sigpy as sp
    rng = rng_for(case)
    n, m = case["n"], case["m"]
    case = dict(case)
    M, y, nA, tau, sigma, Tv, Sv, A, AH, shape_x, shape_u, proxfc, dt = pdhg_setup(case, rng)
    n, m = case["n"], case["m"]          # (identity-like operators force m = n)
    g = make_g(rng, case["g"], n)
    sig = "|".join(map(str, ["pdhg", case["g"], "c" if case["cplx"] else "r", case["steps"],
                             case["frac"], case["start"], case["gamma"], case["via"]]))
    wit = dict(case)
    xs, cert = OPT.solve_composite(M, y, g)
    if not cert <= 1e-10:
        return inconclusive("reference minimiser not certified (residual %.2g)" % cert)
    us = M @ xs - y
    if g[0] == "none":
        proxg = sp.prox.NoOp(shape_x)
    elif g[0] == "box":
        proxg = sp.prox.BoxConstraint(shape_x, np.reshape(g[1], shape_x),
                                      np.reshape(g[2], shape_x))
    else:
        proxg = sigpy_prox(g, shape_x)
    if case["start"] == "saddle":
        x0, u0 = xs.astype(dt), us.astype(dt)
    elif case["start"] == "zero":
        x0, u0 = np.zeros(n, dt), np.zeros(m, dt)
    else:
        x0, u0 = crandn(rng, [n], dt), crandn(rng, [m], dt)
        if g[0] == "box":
            x0 = np.minimum(np.maximum(x0, g[1]), g[2])
    x = x0.reshape(shape_x).copy()
    u = u0.reshape(shape_u).copy()
    if case["rs"][-1] % 3 == 1 and len(shape_x) == 1 and len(shape_u) == 1:
        # strided views as caller arrays
        bx, bu = np.zeros(2 * n, dt), np.zeros(2 * m, dt)
        bx[::2], bu[::2] = x, u
        x, u = bx[::2], bu[::2]
    single = sum(case["rs"]) % 7 == 3 and case["start"] != "saddle"
    if single:
        # single-precision caller arrays with double-precision steps / prox parameters: the
        # iteration must still run in the caller's arrays
        sdt = np.complex64 if np.iscomplexobj(x) else np.float32
        x, u = x.astype(sdt), u.astype(sdt)
        sig += "|single"
    gp = gd = 0
    if case["gamma"] == "primal":
        gp = g[1] if g[0] == "l2" else 0.3
    elif case["gamma"] == "dual":
        gd = 1.0
    const_steps = (gp == 0 and gd == 0)
    tau_arg = tau.copy() if np.ndim(tau) else tau
    sigma_arg = sigma.copy() if np.ndim(sigma) else sigma
    alg = sp.alg.PrimalDualHybridGradient(proxfc, proxg, A, AH, x, u, tau_arg, sigma_arg,
                                          gamma_primal=gp, gamma_dual=gd,
                                          max_iter=case["iters"], tol=0)
    xs_, us_ = [x.ravel().copy()], [u.ravel().copy()]
    k = 0
    scale = max(1.0, nrm(xs), nrm(us))
    while k < case["iters"]:
        alg.update()
        k += 1
        if alg.x is not x or alg.u is not u or (single and (x.dtype != sdt or u.dtype != sdt)):
            return violated(sig, "alg.x / alg.u is no longer the caller's array", wit,
                            mech="not-in-place")
        xs_.append(x.ravel().copy())
        us_.append(u.ravel().copy())
        if case["start"] == "saddle":
            dev = max(nrm(x.ravel() - xs), nrm(u.ravel() - us))
            if not dev <= 1e-9 * scale:
                return violated(sig, "saddle point not fixed: moved by %.3g at update %d "
                                "(gamma=%s)" % (dev, k, case["gamma"]), wit,
                                mech="pdhg-saddle")
        if not (np.all(np.isfinite(x)) and np.all(np.isfinite(u))):
            return violated(sig, "iterates became non-finite at update %d" % k, wit,
                            mech="pdhg-diverged")
    checks = k
    obs = {"updates": k}
    # (array-valued step sizes are the caller's: acceleration rescales the solver's own steps,
    # not the arrays that were passed in)
    for name, arg, ref in (("tau", tau_arg, tau), ("sigma", sigma_arg, sigma)):
        if np.ndim(arg):
            checks += 1
            if not np.array_equal(arg, ref):
                return violated(sig, "the %s array passed to PrimalDualHybridGradient was "
                                "modified by the run (gamma=%s): max change %.3g" % (
                                    name, case["gamma"], float(np.max(np.abs(arg - ref)))), wit,
                                mech="pdhg-caller-steps-modified")
    if single:
        # (the monotonicity claims are decided in double precision; here: in place, finite,
        # and not further from the saddle point than at the start)
        d_first = nrm(xs_[0] - xs) + nrm(us_[0] - us)
        d_last = nrm(xs_[-1] - xs) + nrm(us_[-1] - us)
        checks += 1
        if not d_last <= 3 * d_first + 1e-3 * scale:
            return violated(sig, "single-precision run moved away from the saddle point: "
                            "%.3g -> %.3g" % (d_first, d_last), wit, mech="pdhg-single")
        return held(sig, obs, checks, True)
    if const_steps and case["start"] != "saddle":
        Tinv, Sinv = 1 / Tv, 1 / Sv
        d = [mnorm2(xs_[j] - xs, us_[j + 1] - us, Tinv, Sinv, M) for j in range(k)]
        r = [mnorm2(xs_[j + 1] - xs_[j], us_[j + 2] - us_[j + 1], Tinv, Sinv, M)
             for j in range(k - 1)]
        d0 = max(d[0], 0.0)
        tol_abs = 1e-10 * (abs(d0) + scale ** 2 * (np.max(1 / Tv) + np.max(1 / Sv)))
        worst_inc = 0.0
        for j in range(1, len(d)):
            checks += 1
            worst_inc = max(worst_inc, d[j] - d[j - 1])
            if not d[j] <= d[j - 1] + tol_abs:
                return violated(sig, "M-norm distance to the saddle point increased at "
                                "update %d: %.12g -> %.12g" % (j, d[j - 1], d[j]), wit,
                                mech="pdhg-fejer")
        worst_r = 0.0
        for j in range(len(r)):
            checks += 1
            if j > 0 and not r[j] <= r[j - 1] + tol_abs:
                return violated(sig, "fixed-point residual increased at update %d: %.6g -> "
                                "%.6g" % (j, r[j - 1], r[j]), wit, mech="pdhg-residual")
            worst_r = max(worst_r, r[j] * (j + 1) / max(d0, 1e-300))
            if not r[j] <= d0 / (j + 1) + tol_abs:
                return violated(sig, "fixed-point residual %.6g at update %d exceeds d0/(k+1) "
                                "= %.6g" % (r[j], j, d0 / (j + 1)), wit, mech="pdhg-rate")
        obs.update({"fejer_max_increase": worst_inc, "r_k(k+1)/d0": worst_r})
    return held(sig, obs, checks, True)


def run_pdhg_conv(case):
    """Strongly convex problem 0.5||Ax-y||^2 + lam/2 ||x||^2: bounded progress."""
    import sigpy as sp
    rng = rng_for(case)
    n, m = case["n"], case["m"]
    ints = sum(case["rs"]) % 3 == 1
    c2 = dict(case, steps="scalar", frac=0.9, ratio=1.0, via="func")
    if ints:
        # ||A|| = 1, tau = 0.5 and sigma = 2 with the dual step as a NumPy integer / an integer
        # array (admissible: tau sigma ||A||^2 = 1): the acceleration rescales the steps and
        # must not truncate them
        c2.update(frac=1.0, rs=[0])
    M, y, nA, tau, sigma, Tv, Sv, A, AH, shape_x, shape_u, proxfc, dt = pdhg_setup(c2, rng)
    if ints:
        sigma = np.int64(2) if sum(case["rs"]) % 2 else np.full(shape_u, 2, dtype=np.int64)
    lam = case["lam"] * nA ** 2 * 0.3
    g = ("l2", lam)
    xs, cert = OPT.solve_composite(M, y, g)
    if not cert <= 1e-10:
        return inconclusive("reference not certified")
    x = crandn(rng, [n], dt)
    u = np.zeros(m, dt)
    x0 = x.copy()
    gp = lam if case["gamma"] == "primal" else 0
    gd = 1.0 if case["gamma"] == "dual" else 0
    K = 4000
    alg = sp.alg.PrimalDualHybridGradient(proxfc, sp.prox.L2Reg(shape_x, lam), A, AH, x, u,
                                          tau, sigma, gamma_primal=gp, gamma_dual=gd,
                                          max_iter=K, tol=0)
    sig = "pdhg-conv|%s|%s%s" % (case["gamma"], "c" if case["cplx"] else "r",
                                 "|int-sigma" if ints else "")
    errs = {}
    for k in range(1, K + 1):
        alg.update()
        if k in (40, 400, 4000):
            errs[k] = nrm(x - xs) / max(nrm(x0 - xs), 1e-300)
    obs = {"err@%d" % k: v for k, v in errs.items()}
    rho = 0.05     # reached after ~80 updates on the unchanged tree: 50x slack in iterations
    if not errs[4000] <= rho:
        return violated(sig, "no convergence to the minimiser: ||x_K - x*|| / ||x0 - x*|| = "
                        "%.3g after %d updates (gamma=%s)" % (errs[4000], K, case["gamma"]),
                        dict(case), mech="pdhg-convergence", obs=obs)
    return held(sig, obs, 1, True)


def run_case(case):
    if case["gen"] == "big":
        return run_big(case)
    return {"gm": run_gm, "nesterov": run_nesterov, "pdhg": run_pdhg,
            "pdhg-conv": run_pdhg_conv}[case["gen"]](case)
