"""C05 - fft/ifft are the centred unitary DFT and mutually inverse.

Deciding monitor: reference-model comparison with the explicit DFT-matrix
definition (vf.oracles.dft) on generated shapes/axes/center/norm/oshape/dtype,
through sigpy.fft / sigpy.ifft and through linop.FFT / linop.IFFT.
Tolerance: 1e-10 relative for complex128 (n <= 12 per axis, 4 axes: error of a
pocketfft transform is O(eps log n)); 2e-4 for complex64 and for real inputs,
which sigpy casts to complex64 by design.
"""
import itertools

import numpy as np

from vf.common import vary_seq, structured, Plan, crandn, held, violated, relerr, rng_for, pick, nrm
from vf.oracles import dft as O

SPEC = {
    "deciding_monitors": ["fn:fft", "fn:ifft", "in:layout:F", "in:layout:strided", "in:complex64", "in:float32"],
    "rule": ("cases = generated (direction, shape, axes, center, norm, oshape, dtype, "
             "input class) tuples plus directed delta inputs on odd axes with a strict "
             "subset of axes; distinct = distinct (gen, direction, ndim, parity pattern, "
             "axes kind, center, norm, oshape kind, dtype); non-trivial = at least one "
             "transformed axis of length >= 2"),
    "boundscheck": {"quick": False, "thorough": False},
    "case_timeout": 120.0,
    "assumptions": ["numpy.exp / tensordot used by the explicit DFT oracle are correct",
                    "CPU / numpy backend only"],
}

DTYPES = ["complex128", "complex128", "complex64", "float64", "float32"]


def _axes_variants(rng, ndim):
    """Return (axes or None, kind)."""
    r = rng.random()
    if r < 0.2:
        return None, "none"
    if r < 0.24:
        return [], "empty"        # transform over no axis at all: the identity (resize aside)
    k = int(rng.integers(1, ndim + 1))
    ax = sorted(rng.choice(ndim, size=k, replace=False).tolist())
    style = pick(rng, ["pos", "neg", "mixed", "unsorted"])
    if style == "neg":
        ax = [a - ndim for a in ax]
    elif style == "mixed":
        ax = [a - ndim if rng.random() < 0.5 else a for a in ax]
    elif style == "unsorted":
        ax = list(rng.permutation(ax))
        ax = [int(a) - ndim if rng.random() < 0.3 else int(a) for a in ax]
    return [int(a) for a in ax], style + ("-all" if k == ndim else "-subset")


def plan(tier, seed):
    P = Plan(5, seed)
    nrand = 600 if tier == "quick" else 12000
    maxn = 7 if tier == "quick" else 12
    rng = P.rng("plan")
    for i in range(nrand):
        ndim = int(pick(rng, [1, 1, 2, 2, 3, 4]))
        lim = maxn if ndim < 4 else min(maxn, 5)
        shape = [int(rng.integers(1, lim + 1)) for _ in range(ndim)]
        if i % 8 == 7 and ndim <= 3:
            # size-dependent regime: primes, powers of two and their neighbours past 16 / 32
            big = [[16, 17, 31, 32, 33, 37, 61, 64], [13, 16, 17, 19, 24], [7, 8, 9, 11]][ndim - 1]
            shape = [int(pick(rng, big)) if rng.random() < 0.5 else
                     int(rng.integers([14, 10, 6][ndim - 1], [48, 26, 12][ndim - 1]))
                     for _ in range(ndim)]
        axes, akind = _axes_variants(rng, ndim)
        center = bool(rng.random() < 0.6)
        norm = pick(rng, ["ortho", "ortho", None])
        oshape, okind = None, "same"
        if center and rng.random() < 0.45:
            oshape = [max(1, s + int(rng.integers(-3, 4))) for s in shape]
            if ndim >= 2 and i % 5 == 4:
                # pad one axis and crop another with the same number of elements
                oshape = [int(v) for v in rng.permutation(shape)]
            okind = "".join("g" if o > s else "s" if o < s else "e"
                            for o, s in zip(oshape, shape))
        P.add("fft_matrix", inverse=bool(rng.random() < 0.5), shape=shape, axes=axes,
              akind=akind, center=center, norm=norm, oshape=oshape, okind=okind,
              dtype=pick(rng, DTYPES), view=bool(rng.random() < 0.2),
              mag=pick(rng, [1, 1, 1, 1, 1e-10, 1e8]),
              linop=bool(oshape is None and norm == "ortho" and rng.random() < 0.35))
    # realistic sizes: images of 256 x 256 and larger, volumes, odd / prime extents (still the
    # per-axis DFT-matrix definition), and long 1-D records past 2**16 samples (definition
    # evaluated at sampled output indices, plus Parseval and the round trip)
    rngb = P.rng("big")
    bigs = [[256, 256], [300, 220], [257, 129], [512, 64], [64, 64, 48], [8, 320, 320], [1021, 3]]
    for i in range(6 if tier == "quick" else 40):
        shape = bigs[int(rngb.integers(len(bigs)))]
        ndim = len(shape)
        axes, akind = _axes_variants(rngb, ndim)
        center = bool(rngb.random() < 0.7)
        oshape, okind = None, "same"
        if center and rngb.random() < 0.4:
            oshape = [max(1, s_ + int(rngb.integers(-9, 10))) for s_ in shape]
            okind = "".join("g" if o > s_ else "s" if o < s_ else "e"
                            for o, s_ in zip(oshape, shape))
        P.add("fft_matrix", inverse=bool(rngb.random() < 0.5), shape=shape, axes=axes,
              akind=akind, center=center, norm=pick(rngb, ["ortho", "ortho", None]),
              oshape=oshape, okind=okind, dtype=pick(rngb, ["complex128", "complex64", "float32"]),
              view=bool(rngb.random() < 0.2), mag=1, linop=False, timeout=900)
    for i in range(4 if tier == "quick" else 24):
        n = int(pick(rngb, [65537, 1 << 17, 100003, 70000, (1 << 16) + 2]))
        P.add("fft_long", inverse=bool(rngb.random() < 0.5), n=n, batch=int(pick(rngb, [0, 0, 3])),
              center=bool(rngb.random() < 0.7), norm=pick(rngb, ["ortho", "ortho", None]),
              dtype=pick(rngb, ["complex128", "complex64"]), timeout=900)
    # one array of more than 128 MiB (an 11-coil 128^3 volume in single precision), transformed
    # over its image axes only: every coil is the transform of that coil (thorough tier)
    if tier != "quick":
        P.add("fft_huge", inverse=bool(rngb.random() < 0.5), shape=[11, 128, 128, 128],
              dtype="complex64", timeout=1500)
    # one transform of more than 2**22 samples, not centred (the branch in which the caller's own
    # complex array is handed to the FFT routine)
    P.add("fft_long", inverse=bool(rngb.random() < 0.5), n=(1 << 22) + 6, batch=0, center=False,
          norm=pick(rngb, ["ortho", None]), dtype="complex128", timeout=900)
    # directed: delta at every index of an odd axis, strict subset of axes
    nd = 0
    for n in ([3, 5, 7] if tier == "quick" else [3, 5, 7, 9, 11]):
        for other in (2, 3, 4):
            for pos in range(n):
                for inverse in (False, True):
                    for (shape, axes, idx) in (([n, other], [0], [pos, other // 2]),
                                               ([other, n], [-1], [other - 1, pos])):
                        P.add("delta_subset", inverse=inverse, shape=shape, axes=axes,
                              center=True, norm="ortho", index=idx)
                        nd += 1
    # histories: the same array shape transformed with several (axes, center, norm) settings
    # in one process, then the first again (plans / shifts remembered between calls must be
    # keyed by every parameter)
    rngh = P.rng("hist")
    for i in range(60 if tier == "quick" else 1500):
        ndim = int(pick(rngh, [2, 2, 3]))
        shape = [int(rngh.integers(2, 8)) for _ in range(ndim)]
        seq = []
        for k in range(int(rngh.integers(3, 6))):
            axes, akind = _axes_variants(rngh, ndim)
            seq.append({"axes": axes, "center": bool(rngh.random() < 0.5),
                        "norm": pick(rngh, ["ortho", None]),
                        "inverse": bool(rngh.random() < 0.5)})
        P.add("fft_history", shape=shape, seq=seq, dtype=pick(rngh, ["complex128", "complex64"]))
    return P.cases


def _parity(shape):
    return "".join("1" if s == 1 else "o" if s % 2 else "e" for s in shape)


def run_history(case):
    import sigpy as sp
    rng = rng_for(case)
    shape = tuple(case["shape"])
    dtype = np.dtype(case["dtype"])
    x = crandn(rng, shape, dtype)
    tol = 1e-10 if dtype == np.complex128 else 2e-4
    sig = "history|%dd|%s" % (len(shape), dtype.name)
    first = None
    n = 0
    for st in case["seq"] + case["seq"][:1]:
        f = sp.ifft if st["inverse"] else sp.fft
        y = f(x, axes=st["axes"], center=st["center"], norm=st["norm"])
        ref = O.dft(x, axes=st["axes"], center=st["center"], inverse=st["inverse"],
                    norm=st["norm"])
        e = relerr(y, ref)
        n += 1
        if not e <= tol:
            return violated(sig, "after other (axes, center, norm) settings were used in this "
                            "process, %s with %s differs from the DFT definition: rel %.3g" % (
                                "ifft" if st["inverse"] else "fft", st, e),
                            {"shape": shape, "seq": case["seq"]}, mech="history",
                            obs={"relerr": e})
        if first is None:
            first = y.copy()
    if not np.array_equal(first, y):
        return violated(sig, "repeating the first setting gives a different result",
                        {"shape": shape, "seq": case["seq"]}, mech="history-nondeterministic")
    return held(sig, {"settings": len(case["seq"])}, n, True)


def run_long(case):
    import sigpy as sp
    rng = rng_for(case)
    n, inverse, center, norm = case["n"], case["inverse"], case["center"], case["norm"]
    dtype = np.dtype(case["dtype"])
    shape = ([case["batch"]] if case["batch"] else []) + [n]
    x = crandn(rng, shape, dtype)
    x0 = x.copy()
    f, g = (sp.ifft, sp.fft) if inverse else (sp.fft, sp.ifft)
    sig = "long|%s|%d|b%d|%s|%s|%s" % ("i" if inverse else "f", n, case["batch"], center, norm,
                                       dtype.name)
    wit = dict(case)
    y = f(x, axes=[-1], center=center, norm=norm)
    tol = 1e-9 if dtype == np.complex128 else 3e-4
    checks = 0
    if tuple(y.shape) != tuple(shape) or y.dtype != dtype:
        return violated(sig, "output shape / dtype %s %s, expected %s %s" % (
            y.shape, y.dtype, shape, dtype), wit, mech="shape")
    if not np.array_equal(x, x0):
        return violated(sig, "input array was modified", wit, mech="mutated")
    c = n // 2 if center else 0
    m = np.unique(np.concatenate([[0, 1, n // 2 - 1, n // 2, n // 2 + 1, n - 2, n - 1],
                                  rng.integers(0, n, 120)]))
    k = np.arange(n) - c
    sgn = 1.0 if inverse else -1.0
    xd = x0.astype(np.complex128).reshape(-1, n)
    ref = np.stack([xd @ np.exp(sgn * 2j * np.pi * ((mm - c) * k % n) / n) for mm in m], axis=-1)
    ref = ref / (np.sqrt(n) if norm == "ortho" else (n if inverse else 1.0))
    got = y.reshape(-1, n)[:, m]
    sc = nrm(xd) / np.sqrt(n) * (np.sqrt(n) if norm == "ortho" else (1.0 if inverse else n)) \
        / (1.0 if norm == "ortho" else np.sqrt(n)) + 1e-300
    e = float(np.max(np.abs(got - ref))) / max(float(np.max(np.abs(ref))), 1e-300)
    checks += 1
    obs = {"sampled_err": e, "samples": int(m.size)}
    if not e <= tol:
        return violated(sig, "differs from the DFT definition at sampled output indices: "
                        "relative error %.3g (n = %d)" % (e, n), wit, mech="value", obs=obs)
    if norm == "ortho":
        e3 = abs(nrm(y) - nrm(x0)) / max(nrm(x0), 1e-300)
        back = g(y, axes=[-1], center=center, norm=norm)
        e2 = relerr(back, x0.astype(np.complex128))
        obs.update(parseval=e3, roundtrip=e2)
        checks += 2
        if not e3 <= tol * 10:
            return violated(sig, "norm not preserved: %.3g (n = %d)" % (e3, n), wit,
                            mech="parseval", obs=obs)
        if not e2 <= tol * 10:
            return violated(sig, "round trip error %.3g (n = %d)" % (e2, n), wit,
                            mech="roundtrip", obs=obs)
    return held(sig, obs, checks, True)


def run_huge(case):
    import sigpy as sp
    rng = rng_for(case)
    shape = case["shape"]
    dtype = np.dtype(case["dtype"])
    f, g = (sp.ifft, sp.fft) if case["inverse"] else (sp.fft, sp.ifft)
    x = (rng.standard_normal(shape, dtype=np.float32)
         + 1j * rng.standard_normal(shape, dtype=np.float32)).astype(dtype)
    sig = "huge|%s|%s" % ("i" if case["inverse"] else "f", "x".join(map(str, shape)))
    wit = dict(case)
    y = f(x, axes=[-3, -2, -1])
    if y.shape != x.shape or y.dtype != dtype:
        return violated(sig, "output shape / dtype %s %s" % (y.shape, y.dtype), wit, mech="shape")
    checks = 0
    sgn = 1.0 if case["inverse"] else -1.0
    n = shape[1:]
    for c in range(shape[0]):
        nx_, ny_ = nrm(x[c]), nrm(y[c])
        checks += 1
        if not abs(ny_ - nx_) <= 1e-3 * nx_:
            return violated(sig, "leading entry %d of %d: norm %.6g in, %.6g out (array of %d "
                            "MiB)" % (c, shape[0], nx_, ny_, x.nbytes >> 20), wit,
                            mech="parseval")
        # the definition at two output samples of this entry
        for _ in range(2):
            m = [int(rng.integers(0, k_)) for k_ in n]
            ph = [np.exp(sgn * 2j * np.pi * (m[a] - n[a] // 2) * (np.arange(n[a]) - n[a] // 2)
                         / n[a]) for a in range(3)]
            ref = np.einsum("ijk,i,j,k->", x[c].astype(np.complex128), *ph) / np.sqrt(
                np.prod(n))
            checks += 1
            if not abs(y[c][tuple(m)] - ref) <= 2e-3 * max(abs(ref), nx_ / np.sqrt(np.prod(n))):
                return violated(sig, "leading entry %d: output sample %s is %s, the DFT "
                                "definition gives %s" % (c, m, y[c][tuple(m)], ref), wit,
                                mech="value")
    back = g(y, axes=[-3, -2, -1])
    e2 = nrm(back - x) / nrm(x)
    if not e2 <= 1e-3:
        return violated(sig, "round trip error %.3g" % e2, wit, mech="roundtrip")
    return held(sig, {"mib": int(x.nbytes >> 20), "roundtrip": e2}, checks + 1, True)


def run_case(case):
    import sigpy as sp
    if case["gen"] == "fft_history":
        return run_history(case)
    if case["gen"] == "fft_huge":
        return run_huge(case)
    if case["gen"] == "fft_long":
        return run_long(case)
    rng = rng_for(case)
    shape = tuple(case["shape"])
    axes = case["axes"]
    inverse = case["inverse"]
    center, norm = case["center"], case["norm"]
    f = sp.ifft if inverse else sp.fft
    checks = 0
    if case["gen"] == "delta_subset":
        x = np.zeros(shape, np.complex128)
        x[tuple(case["index"])] = 1 + 0.5j
        dtype = np.dtype(np.complex128)
        oshape = None
        sig = "delta|%s|%s|n%d" % ("i" if inverse else "f", axes, max(shape))
        view = False
    else:
        dtype = np.dtype(case["dtype"])
        oshape = case["oshape"]
        view = case["view"]
        if view and sum(case["rs"]) % 2 == 0:
            big = np.zeros(tuple(2 * n for n in shape), dtype)
            sl = tuple(slice(None, None, 2) for _ in shape)
            big[sl] = crandn(rng, shape, dtype)
            x = big[sl]                                  # strided view
        elif view and len(shape) >= 3 and sum(case["rs"]) % 3 == 1:
            # a cyclically transposed view (np.moveaxis(stored, -1, 0): coils stored last,
            # transformed first) - an axis order that is not its own inverse
            perm = list(range(1, len(shape))) + [0]
            inv = [perm.index(a_) for a_ in range(len(shape))]
            x = np.ascontiguousarray(crandn(rng, shape, dtype).transpose(perm)).transpose(inv)
        elif view and len(shape) >= 2:
            x = crandn(rng, shape[::-1], dtype).T        # non-contiguous input
        else:
            with structured((sum(case["rs"]) // 3) % 10 if sum(case["rs"]) % 2 else 0) as skind:
                x = crandn(rng, shape, dtype)
        sig = "|".join(map(str, [case["gen"], "i" if inverse else "f", len(shape),
                                 _parity(shape), case["akind"], center, norm,
                                 case["okind"], dtype.name]))
    if case.get("mag", 1) != 1:
        x = x * x.dtype.type(case["mag"])       # 1e-8 / 1e+8: the transform is homogeneous
        sig += "|mag"
    if "rs" in case and sum(case["rs"]) % 7 == 3:
        # the same values stored in the other byte order (raw data read with '>c8' / '>f4'
        # from a file written on another platform): still a complex64 / complex128 array
        x = x.astype(x.dtype.newbyteorder())
        sig += "|byteswapped"
    x0 = x.copy()
    tol = 1e-10 if dtype == np.complex128 else 2e-4
    kw = {}
    at_ = (sum(case["rs"]) // 5) % 8 if "rs" in case else 0
    if oshape is not None:
        kw["oshape"] = vary_seq(oshape, at_)      # list / tuple / int64 array / NumPy ints
    if sum(case["rs"]) % 4 == 1 if "rs" in case else False:
        # the documented signature (input, oshape, axes, center, norm) called positionally
        y = f(x, kw.get("oshape"), vary_seq(axes, at_), center, norm)
        sig += "|positional"
    else:
        y = f(x, axes=vary_seq(axes, at_), center=center, norm=norm, **kw)
    ref = O.dft(x0, axes=axes, center=center, inverse=inverse, norm=norm, oshape=oshape)
    tr_axes = range(len(shape)) if axes is None else [a % len(shape) for a in axes]
    nontrivial = any(ref.shape[a] >= 2 for a in tr_axes)
    wit = {"shape": shape, "axes": axes, "center": center, "norm": norm,
           "oshape": oshape, "dtype": dtype.name, "inverse": inverse}
    checks += 1
    if tuple(y.shape) != tuple(ref.shape):
        return violated(sig, "output shape %s, expected %s" % (y.shape, ref.shape), wit,
                        mech="shape")
    e = relerr(y, ref) if nrm(ref) > 0 else nrm(y)
    obs = {"relerr": e}
    if not e <= tol:
        return violated(sig, "differs from the explicit DFT definition: rel. error %.3g "
                        "(tol %.1g)" % (e, tol), wit, mech="value", obs=obs)
    if sum(case["rs"]) % 3 == 0:
        # history with rejected calls in between (unsupported norm string, out-of-range axis)
        # on a larger input with the same output shape and element type; then the first call
        # again: same result
        big = np.full(tuple(2 * n_ + 1 for n_ in x0.shape), 3 + 4j).astype(x0.dtype)
        osh_ = list(ref.shape)
        for bad in (lambda: f(big, axes=axes, center=center, norm="orthonormal", oshape=osh_),
                    lambda: f(big, axes=[len(shape) + 3], center=center, norm=norm),
                    lambda: f(big, axes=axes, center=center, norm=norm, oshape=osh_ + [2])):
            try:
                bad()
            except Exception:
                pass
        try:
            y2 = f(x, axes=axes, center=center, norm=norm, **kw)
        except Exception as e:
            return violated(sig, "a valid call raised %s after rejected calls" % type(
                e).__name__, wit, mech="history-after-failure")
        checks += 1
        if y2.shape != y.shape or not np.array_equal(y2, y, equal_nan=True):
            return violated(sig, "the same call gives another result after rejected calls "
                            "(unsupported norm / axis / oshape on a larger input) in between: "
                            "max diff %.3g" % float(np.max(np.abs(y2 - y))), wit,
                            mech="history-after-failure")
    checks += 1
    if dtype.kind == "c" and (y.dtype.kind != "c" or y.dtype.itemsize != dtype.itemsize):
        return violated(sig, "complex input %s came back as %s" % (dtype, y.dtype), wit,
                        mech="dtype")
    if not np.array_equal(x, x0):
        return violated(sig, "input array was modified", wit, mech="mutated")
    if oshape is None and norm == "ortho":
        g = sp.fft if inverse else sp.ifft
        back = g(y, axes=axes, center=center, norm=norm)
        e2 = relerr(back, x0.astype(np.complex128)) if nrm(x0) > 0 else nrm(back)
        e3 = abs(nrm(y) - nrm(x0)) / max(nrm(x0), 1e-300)
        obs.update(roundtrip=e2, parseval=e3)
        checks += 2
        if not e2 <= tol * 10:
            return violated(sig, "round trip error %.3g" % e2, wit, mech="roundtrip", obs=obs)
        if not e3 <= tol * 10:
            return violated(sig, "norm not preserved: %.3g" % e3, wit, mech="parseval", obs=obs)
    if case.get("linop"):
        cls = sp.linop.IFFT if inverse else sp.linop.FFT
        A = cls(list(shape), axes=axes, center=center)
        yl = A(x)
        e4 = relerr(yl, ref) if nrm(ref) > 0 else nrm(yl)
        xa = crandn(rng, shape, dtype)
        ya = A.H(xa)
        refa = O.dft(xa, axes=axes, center=center, inverse=not inverse, norm="ortho")
        e5 = relerr(ya, refa)
        obs.update(linop=e4, linop_adjoint=e5)
        checks += 2
        if not (e4 <= tol and e5 <= tol):
            return violated(sig + "|linop", "linop.%s differs from the DFT definition: %.3g / "
                            "adjoint %.3g" % (cls.__name__, e4, e5), wit, mech="linop", obs=obs)
        sig += "|linop"
    return held(sig, obs, checks, nontrivial)
