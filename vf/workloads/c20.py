"""C20 - trapezoid gradient designers meet area, amplitude and slew limits.

Deciding monitor: postconditions on the waveforms returned by the real trap_grad /
min_trap_grad (also recorded while spokes_grad calls them, through a wrapper on the module
globals) and on the waveforms spokes_grad assembles:
  waveform g (squeezed): g[0] = g[-1] = 0; max|g| <= gmax (1 + 1e-9); max|diff g| / dt <=
  dgdt (1 + 1e-9) (the designers land exactly on the limit up to 2e-15, hence the relative
  epsilon); trap_grad: sum(g) dt = area (1 +- 1e-9); min_trap_grad: the samples between the
  two ramps (g[ramppts+1 : -(ramppts+1)]) integrate to the area and the returned ramppts
  matches the waveform;  spokes_grad(k, ...): all three axes within gmax and dgdt over the
  whole concatenated waveform (junctions included), per spoke the in-plane moment over that
  spoke's segment equals (k[i+1] - k[i]) / 4257 (last spoke returns to 0), slice-select lobes
  alternate in sign and the final lobe refocuses half a sub-pulse.
"""
import numpy as np

from vf.common import Plan, held, violated, inconclusive, rng_for, pick
from vf.monitors import STATE

SPEC = {
    "deciding_monitors": ["fn:trap_grad", "fn:min_trap_grad", "fn:spokes_grad"],
    "rule": ("cases = (designer, area log-uniform in [1e-6, 1], gmax in [0.1, 10], dgdt in "
             "[1e2, 1e5], dt in [1e-6, 1e-4]) incl. the triangle/trapezoid boundary, "
             "gmax/dgdt/dt integer and just above an integer, sub-sample areas; spokes: 1-6 "
             "locations with increments 1e-3 .. 30 cycles/cm, repeated locations, single "
             "spoke; distinct = designer + regime + magnitude classes; non-trivial = every "
             "case"),
    "boundscheck": {"quick": False, "thorough": False},
    "case_timeout": 120.0,
    "assumptions": ["waveforms longer than 2e6 samples are not generated (area / (gmax dt) "
                    "bounded)"],
}

_BLIPS = []


def worker_init():
    import sigpy.mri.rf.trajgrad as T
    orig = T.trap_grad

    def traced(area, gmax, dgdt, dt, *a):
        out = orig(area, gmax, dgdt, dt, *a)
        STATE.count["trap_grad:calls"] += 1
        _BLIPS.append((float(area), int(np.size(out[0]))))
        return out
    T.trap_grad = traced


def plan(tier, seed):
    P = Plan(20, seed)
    quick = tier == "quick"
    rng = P.rng("trap")
    n = 700 if quick else 12000
    for i in range(n):
        fn = pick(rng, ["trap_grad", "min_trap_grad"])
        gmax = float(10 ** rng.uniform(-1, 1))
        dgdt = float(10 ** rng.uniform(2, 5))
        dt = float(10 ** rng.uniform(-6, -4))
        mode = pick(rng, ["random", "random", "boundary", "integer-ramp", "subsample"])
        area = float(10 ** rng.uniform(-6, 0))
        if mode == "boundary":
            ramppts = int(np.ceil(gmax / dgdt / dt))
            area = ramppts * dt * gmax * (1 + float(pick(rng, [-1e-6, 0.0, 1e-6, -1e-3, 1e-3])))
        elif mode == "integer-ramp":
            k = int(rng.integers(1, 40))
            gmax = k * dgdt * dt * (1 + float(pick(rng, [0.0, 1e-12, -1e-12, 1e-6])))
        elif mode == "subsample":
            area = float(10 ** rng.uniform(-6, -4.5))
        area = float(min(max(area, 1e-6), 1.0))
        gmax = float(min(max(gmax, 0.1), 10.0))
        if area / (gmax * dt) > 2e6:
            dt = area / (gmax * 2e6)
            if dt > 1e-4:
                continue
        units = "s,G/cm"
        if i % 5 == 2:
            # the same design problem in another consistent unit system: time in ms / us / ns
            # (or ks), amplitude in mT/m, T/m ... - the designers are unit-free
            ts = float(pick(rng, [1e3, 1e6, 1e6, 1e9, 1e-3]))
            cs = float(pick(rng, [1.0, 10.0, 1e-4, 1e3]))
            area, gmax, dgdt, dt = area * ts * cs, gmax * cs, dgdt * cs / ts, dt * ts
            units = "t*%g,g*%g" % (ts, cs)
        P.add("trap", fn=fn, area=area, gmax=gmax, dgdt=dgdt, dt=dt, mode=mode, units=units,
              argtype=pick(rng, ["py", "py", "py", "np", "np32"]))
    # integer-typed arguments (valid numbers): whole-number limits and areas
    for i in range(40 if quick else 400):
        P.add("trap", fn=pick(rng, ["trap_grad", "min_trap_grad"]), area=int(pick(rng, [1, 1, 2])),
              gmax=int(rng.integers(1, 11)), dgdt=int(pick(rng, [100, 1000, 20000, 100000])),
              dt=float(pick(rng, [1e-5, 4e-5, 1e-4])), mode="int-args", argtype="py")
    # histories: the same designer called repeatedly with all arguments but one held fixed
    # (anything remembered between calls must be keyed by every argument), first value again
    # at the end
    rngh = P.rng("hist")
    for i in range(80 if quick else 1200):
        base = {"area": float(10 ** rngh.uniform(-5, -2)), "gmax": float(10 ** rngh.uniform(-1, 1)),
                "dgdt": float(10 ** rngh.uniform(2, 5)), "dt": float(10 ** rngh.uniform(-6, -4))}
        vary = pick(rngh, ["dt", "dt", "area", "gmax", "dgdt"])
        vals = [base[vary] * f for f in (1.0, float(pick(rngh, [0.4, 0.5, 2.0, 2.5])),
                                         float(pick(rngh, [0.25, 4.0, 1.5])), 1.0)]
        if vary == "gmax":
            vals = [min(max(v, 0.1), 10.0) for v in vals]
        P.add("trap-history", fn=pick(rngh, ["trap_grad", "min_trap_grad"]), base=base,
              vary=vary, vals=vals)
    # directed: increments certain to need a blip longer than the sub-pulse (the known
    # finding's mechanism, so its KNOWN-FINDING line is printed on every run) and small ones
    for kk in ([[0.0, 0.0], [20.0, 0.0]], [[15.0, -15.0], [-15.0, 15.0], [0.0, 25.0]],
               [[0.0, 0.0], [0.5, 0.2]], [[0.3, 0.1], [-0.2, 0.4], [0.0, 0.1]]):
        P.add("spokes", k=kk, tbw=4, sl=5.0, gmax=4.0, dgdt=2e4, dt=4e-6)
    # near-ties: an equidistant spoke table written with six decimals (pitch 1/3, 1/7 ...), or
    # steps perturbed at the 1e-6 level - consecutive increments agree to five or six digits
    # but are not equal; each is its own request
    rngn = P.rng("spokes-near")
    for i in range(10 if quick else 120):
        ns = int(rngn.integers(3, 7))
        pitch = float(pick(rngn, [1 / 3, 1 / 7, 0.2 / 3, 2 / 3]))
        ax = int(rngn.integers(2))
        k = []
        for j in range(ns):
            v = round(j * pitch, 6) if i % 2 == 0 else j * pitch * (1 + 3e-6 * float(
                rngn.uniform(-1, 1)))
            k.append([v, 0.0] if ax == 0 else [0.1, v])
        P.add("spokes", ktype="near-equidistant", k=k, tbw=int(pick(rngn, [2, 4])),
              sl=float(pick(rngn, [5.0, 10.0])), gmax=4.0, dgdt=2e4, dt=4e-6)
    rng = P.rng("spokes")
    for i in range(150 if quick else 2500):
        ns = int(rng.integers(1, 7))
        scale = float(10 ** rng.uniform(-7 if i % 4 == 3 else -3, np.log10(30)))
        k = (rng.standard_normal((ns, 2)) * scale).tolist()
        if ns > 1 and rng.random() < 0.2:
            k[1] = list(k[0])                      # repeated location: zero increment
        if rng.random() < 0.15:
            k[0] = [0.0, k[0][1]]                  # zero increment on one axis only
        if rng.random() < 0.15:
            k = [[int(round(v)) for v in row] for row in k]        # integer spoke locations
            ktype = "int"
        else:
            ktype = "float"
        P.add("spokes", ktype=ktype, k=k, tbw=int(pick(rng, [2, 4, 8])),
              sl=float(pick(rng, [2.0, 5.0, 10.0])), gmax=float(pick(rng, [2.0, 4.0])),
              dgdt=float(pick(rng, [1e4, 2e4])), dt=float(pick(rng, [4e-6, 1e-5])))
    return P.cases


def check_waveform(g, gmax, dgdt, dt, what):
    if not np.all(np.isfinite(g)):
        return "%s: non-finite samples" % what, "nonfinite"
    if g[0] != 0 or g[-1] != 0:
        return "%s: does not start/end at zero (g[0] = %.3g, g[-1] = %.3g)" % (
            what, g[0], g[-1]), "endpoints"
    if np.max(np.abs(g)) > gmax * (1 + 1e-9):
        return "%s: amplitude %.9g exceeds gmax %.9g" % (what, np.max(np.abs(g)), gmax), \
            "amplitude"
    sl = np.max(np.abs(np.diff(g))) / dt
    if sl > dgdt * (1 + 1e-9):
        return "%s: slew %.9g exceeds dgdt %.9g" % (what, sl, dgdt), "slew"
    return None, None


def run_trap(case):
    import sigpy.mri.rf.trajgrad as T
    fn, area, gmax, dgdt, dt = case["fn"], case["area"], case["gmax"], case["dgdt"], case["dt"]
    ramp_max = int(np.ceil(gmax / dgdt / dt))
    regime = "tri" if ramp_max * dt * gmax > area else "trap"
    sig = "|".join(map(str, [fn, case["mode"], regime, case.get("units", ""),
                             "a%d" % int(np.log10(area)),
                             "g%d" % int(np.log10(gmax)), "s%d" % int(np.log10(dgdt)),
                             "t%d" % int(np.log10(dt))]))
    wit = dict(case)
    args = (area, gmax, dgdt, dt)
    if case.get("argtype") == "np":
        args = tuple(np.float64(v) for v in args)
    elif case.get("argtype") == "np32":
        args = (np.float64(area), np.float32(gmax), np.float32(dgdt), np.float64(dt))
        gmax, dgdt = float(np.float32(gmax)), float(np.float32(dgdt))
    try:
        g, ramppts = getattr(T, fn)(*args)
        if fn == "trap_grad" and case.get("mode") in ("random", "boundary") and \
                sum(case.get("rs", [0])) % 3 == 0:
            # trap_grad(area, gmax, dgdt, dt, 1): the explicit "ramp-sampled" flag of the
            # MATLAB original the port accepts - the same total-area design
            g5, r5 = T.trap_grad(*(args + (1,)))
            if np.shape(g5) != np.shape(g) or not np.array_equal(np.asarray(g5), np.asarray(g)):
                return violated(sig, "trap_grad(area, gmax, dgdt, dt, 1) differs from the "
                                "four-argument call (integral %.6g vs %.6g)" % (
                                    float(np.sum(g5) * dt), float(np.sum(g) * dt)), wit,
                                mech="fifth-argument:trap_grad")
    except Exception as e:
        return violated(sig, "%s(%.6g, %.6g, %.6g, %.6g) raised %s: %s" % (
            fn, area, gmax, dgdt, dt, type(e).__name__, str(e)[:150]), wit,
            mech="raised:" + fn)
    g = np.asarray(g, float).ravel()
    msg, mech = check_waveform(g, gmax, dgdt, dt, fn)
    obs = {"samples": int(g.size), "amp/gmax": float(np.max(np.abs(g)) / gmax),
           "slew/dgdt": float(np.max(np.abs(np.diff(g))) / dt / dgdt) if g.size > 1 else 0.0}
    if msg:
        return violated(sig, msg + " for area=%.6g gmax=%.6g dgdt=%.6g dt=%.6g" % (
            area, gmax, dgdt, dt), wit, mech=mech + ":" + fn, obs=obs)
    if fn == "trap_grad":
        tot = float(np.sum(g) * dt)
        obs["area_err"] = abs(tot - area) / area
        if not abs(tot - area) <= 1e-9 * area:
            return violated(sig, "trap_grad: integral %.12g, requested area %.12g" % (tot, area),
                            wit, mech="area:" + fn, obs=obs)
    else:
        r = int(ramppts)
        flat = g[r + 1: g.size - (r + 1)]
        tot = float(np.sum(flat) * dt)
        obs["area_err"] = abs(tot - area) / area
        if flat.size == 0 or not abs(tot - area) <= 1e-9 * area:
            return violated(sig, "min_trap_grad: flat top (ramppts=%d, %d samples) integrates "
                            "to %.12g, requested %.12g" % (r, flat.size, tot, area), wit,
                            mech="area:" + fn, obs=obs)
        top = float(np.max(g))
        if np.any(np.abs(flat - top) > 1e-9 * top) or not (
                np.all(np.diff(g[:r + 1]) > 0) and np.all(np.diff(g[g.size - r - 1:]) < 0)):
            return violated(sig, "min_trap_grad: returned ramppts=%d does not describe the "
                            "waveform's ramps" % r, wit, mech="ramppts:" + fn, obs=obs)
    return held(sig, obs, 3)


def run_spokes(case):
    import sigpy.mri.rf.trajgrad as T
    k = np.asarray(case["k"], float).reshape(-1, 2)
    kin = k if case.get("ktype") != "int" else np.asarray(case["k"], dtype=np.int64).reshape(-1, 2)
    tbw, sl, gmax, dgdt, dt = case["tbw"], case["sl"], case["gmax"], case["dgdt"], case["dt"]
    ns = k.shape[0]
    inc = np.diff(np.concatenate((k, np.zeros((1, 2))), axis=0), axis=0)
    big = float(np.max(np.abs(inc)))
    sig = "|".join(map(str, ["spokes", case.get("ktype", "float"), ns, tbw, sl, gmax, dgdt, dt,
                             "i%d" % int(np.floor(np.log10(max(big, 1e-9))))]))
    wit = dict(case)
    area = tbw / (sl / 10) / 4257
    subgz, nramp = T.min_trap_grad(area, gmax, dgdt, dt)
    nsub = int(np.size(subgz))
    if case.get("ktype") != "int":
        kin = k.copy()                   # the caller's own float64 array of locations
    kin0 = kin.copy()
    if sum(map(ord, sig)) % 3 == 0:
        # history: a design with other limits that is rejected half-way (a non-finite location
        # after the same first locations) precedes the valid one
        kbad = np.concatenate([np.asarray(kin, float), [[np.inf, 0.0]]], axis=0)
        try:
            T.spokes_grad(kbad, tbw, sl, gmax * 4, dgdt * 10, dt / 2)
        except Exception:
            pass
    del _BLIPS[:]
    try:
        g = T.spokes_grad(kin, tbw, sl, gmax, dgdt, dt)
    except Exception as e:
        wit["blip_samples"] = [b[1] for b in _BLIPS]
        wit["subpulse_samples"] = nsub
        return violated(sig, "spokes_grad raised %s: %s" % (type(e).__name__, str(e)[:150]),
                        wit, mech="spokes-raised")
    if not np.array_equal(kin, kin0):
        return violated(sig, "spokes_grad modified the caller's array of spoke locations (a "
                        "second design from the same array would move k-space by other "
                        "increments)", wit, mech="spokes-mutates-k")
    blips = list(_BLIPS)
    wit["blip_samples"] = [b[1] for b in blips[:-1]]        # last call is the gz refocuser
    wit["subpulse_samples"] = nsub
    g = np.asarray(g, float)
    obs = {"samples": int(g.shape[1]), "max_blip/subpulse":
           max([b[1] for b in blips[:-1]] + [0]) / nsub}
    if g.shape[0] != 3:
        return violated(sig, "spokes_grad returned %s axes" % (g.shape,), wit, mech="spokes-shape")
    for ax, name in enumerate(("gx", "gy", "gz")):
        w = g[ax]
        if np.max(np.abs(w)) > gmax * (1 + 1e-9):
            return violated(sig, "%s amplitude %.6g exceeds gmax %.6g" % (
                name, np.max(np.abs(w)), gmax), wit, mech="spokes-amplitude", obs=obs)
        slw = np.max(np.abs(np.diff(w))) / dt
        if slw > dgdt * (1 + 1e-9):
            return violated(sig, "%s slew %.6g exceeds the limit %.6g (at sample %d of %d)" % (
                name, slw, dgdt, int(np.argmax(np.abs(np.diff(w)))), w.size), wit,
                mech="spokes-slew", obs=obs)
        if w[0] != 0 or w[-1] != 0:
            return violated(sig, "%s does not start/end at zero" % name, wit,
                            mech="spokes-endpoints", obs=obs)
    # k-space increments per spoke segment
    for i in range(ns):
        seg = slice(i * nsub, (i + 1) * nsub)
        for ax in (0, 1):
            got = float(np.sum(g[ax, seg]) * dt)
            want = inc[i, ax] / 4257
            if not abs(got - want) <= 1e-9 * max(abs(want), 1e-12) + 1e-15:
                return violated(sig, "spoke %d: in-plane moment on axis %d is %.9g, requested "
                                "increment %.9g (k-space moves by %.6g instead of %.6g "
                                "cycles/cm)" % (i, ax, got, want, got * 4257, inc[i, ax]),
                                wit, mech="spokes-increment", obs=obs)
        lobe = g[2, seg]
        sgn = 1 if i % 2 == 0 else -1
        if not np.allclose(lobe, sgn * np.asarray(subgz).ravel(), rtol=1e-12, atol=0):
            return violated(sig, "slice-select lobe %d is not the sub-pulse with sign %+d" % (
                i, sgn), wit, mech="spokes-gz", obs=obs)
    ref = g[2, ns * nsub:]
    want = -0.5 * float(np.sum(subgz)) * dt
    got = float(np.sum(ref) * dt)
    if not abs(got - want) <= 1e-9 * abs(want):
        return violated(sig, "slice refocusing lobe has area %.9g, expected %.9g" % (got, want),
                        wit, mech="spokes-refocus", obs=obs)
    if np.any(g[:2, ns * nsub:] != 0):
        return violated(sig, "in-plane gradients not zero during the refocusing lobe", wit,
                        mech="spokes-tail", obs=obs)
    return held(sig, obs, 3 + 2 * ns)


def run_trap_history(case):
    n = 0
    last = None
    for v in case["vals"]:
        c = dict(case["base"])
        c[case["vary"]] = v
        c.update(fn=case["fn"], mode="history", gen="trap")
        if c["area"] / (c["gmax"] * c["dt"]) > 2e6:
            continue
        r = run_trap(c)
        n += r.get("checks", 0)
        if r["verdict"] != "held":
            r["why"] = "after calls that differed only in %s: %s" % (case["vary"], r.get("why"))
            r["sig"] = "history|" + r.get("sig", "")
            return r
        last = r
    if last is None:
        return inconclusive("history skipped (waveform too long)")
    last["sig"] = "history|%s|%s" % (case["fn"], case["vary"])
    last["checks"] = n
    return last


def run_case(case):
    if case["gen"] == "trap-history":
        return run_trap_history(case)
    return run_trap(case) if case["gen"] == "trap" else run_spokes(case)
