"""C08 - convolve matches the convolution definition; adjoints are exact.

Deciding monitor: reference-model comparison of sigpy.convolve with the explicit
loop definition (vf.oracles.conv) on random complex (data, filter) pairs and on unit
impulses (convolve is bilinear), 'either computed correctly or rejected' for every
generated shape/mode/stride combination (a returned array of another shape, e.g. an
empty one, is a violation); adjoint identities
<conv(d,f),y> = <d, convolve_data_adjoint(y,f,d.shape)> = conj-bilinear filter adjoint,
with returned shapes equal to the requested ones.  Tolerance 1e-10 relative.
"""
import numpy as np

from vf.common import vary_seq, structured, Plan, relayout, crandn, held, violated, inconclusive, rng_for, nrm, inner, pick
from vf.oracles import conv as O

SPEC = {
    "deciding_monitors": ["fn:convolve", "fn:convolve_data_adjoint", "fn:convolve_filter_adjoint", "in:layout:F", "in:layout:strided", "in:complex64", "in:float32"],
    "rule": ("cases = (D in 1..3, per-axis data/filter lengths with filter shorter / equal / "
             "longer / mixed, batch shape, channels, strides, mode, operand dtypes incl. mixed "
             "real/complex, function or Linop); distinct = those structural classes; "
             "non-trivial = more than one tap or more than one channel"),
    "boundscheck": {"quick": False, "thorough": False},
    "case_timeout": 120.0,
    "assumptions": ["valid mode with neither operand containing the other (mixed per axis) has "
                    "no definition: such calls must be rejected"],
}


def plan(tier, seed):
    P = Plan(8, seed)
    quick = tier == "quick"
    rng = P.rng("conv")
    for i in range(700 if quick else 12000):
        D = int(pick(rng, [1, 1, 2, 2, 3]))
        big = i % 8 == 7           # size-dependent regime: long operands, > 3 channels
        lim = [9, 5, 4][D - 1] if not big else [40, 12, 6][D - 1]
        m = [int(rng.integers(1, lim + 1)) for _ in range(D)]
        rel = pick(rng, ["shorter", "shorter", "equal", "longer", "longer", "any"])
        if rel == "shorter":
            n = [int(rng.integers(1, a + 1)) for a in m]
        elif rel == "equal":
            n = list(m)
        elif rel == "longer":
            n = [int(a + rng.integers(1, 4)) for a in m]
        else:
            n = [int(rng.integers(1, lim + 1)) for _ in range(D)]
        multi = bool(rng.random() < 0.5)
        P.add("conv", m=m, n=n, rel=rel, mode=pick(rng, ["full", "valid", "valid"]),
              strides=None if rng.random() < 0.35 else [int(rng.integers(1, 4))
                                                        for _ in range(D)],
              multi=multi, ci=int(rng.integers(1, 7 if big else 4)) if multi else 1,
              co=int(rng.integers(1, 7 if big else 4)) if multi else 1,
              batch=pick(rng, [[], [], [2], [2, 2]] + ([[5]] if big else [])),
              mag=pick(rng, [[1, 1], [1, 1], [1, 1], [1, 1], [1e8, 1e-10], [1e-10, 1], [1, 1e8]]),
              dd=pick(rng, ["complex128", "complex128", "float64", "complex64", "float32"]),
              df=pick(rng, ["complex128", "complex128", "float64", "complex64", "float32"]),
              via=pick(rng, ["func", "func", "linop"]))
        if i % 10 == 3:
            # the interpreter mode python -O (validation written as assert vanishes there):
            # "computed correctly or rejected" must hold in it as well
            P.cases[-1]["pyopt"] = True
        if i % 9 == 4:
            # integer operands (counts, label masks, integer taps): the convolution of
            # integers is exact - both integer, or an integer next to a real / complex one
            c_ = P.cases[-1]
            c_["dd"] = pick(rng, ["int64", "int32", "int64", "uint8"])
            c_["df"] = pick(rng, ["int64", "int32", "int16", "float64", "complex128"])
            c_["mag"] = [1, 1]
    # realistic sizes: a 256 x 256 image (a label mask, a float or complex image) with a small
    # filter, a long 1-D signal, a 3-D volume - full outputs of 2**16 samples and more; decided
    # against the definition evaluated tap by tap (vf.oracles.conv.convolve_shift_add)
    bigs = [([256, 256], [3, 3]), ([70000], [5]), ([300, 280], [7, 5]), ([48, 50, 44], [3, 3, 3]),
            ([256, 256], [1, 9]), ([1 << 16], [2]), ([512, 300], [2, 2]), ([130, 140], [130, 140])]
    rngb = P.rng("conv-big")
    for i in range(4 if quick else 24):
        m, n = bigs[int(rngb.integers(3))] if quick and i < 2 else bigs[
            int(rngb.integers(len(bigs) - (1 if quick else 0)))]
        multi = bool(rngb.random() < 0.3) and int(np.prod(n)) <= 64
        dd = pick(rngb, ["int64", "int32", "float64", "complex64", "uint8"]) if i % 2 == 0 \
            else pick(rngb, ["int64", "int32"])
        P.add("conv", m=m, n=n, rel="big", mode=pick(rngb, ["full", "valid"]),
              strides=None if rngb.random() < 0.6 else [int(rngb.integers(1, 4)) for _ in m],
              multi=multi, ci=2 if multi else 1, co=int(rngb.integers(1, 3)) if multi else 1,
              batch=pick(rngb, [[], [], [2]]), mag=[1, 1], dd=dd,
              df=dd if dd.startswith("int") else pick(rngb, ["int64", "float64", dd]),
              via=pick(rngb, ["func", "linop"]), big=True, timeout=900)
    # histories: adjoint calls on two shape settings and two stride settings in varying
    # order within one process (scratch buffers / cached plans must not leak between calls)
    for i in range(60 if quick else 900):
        D = int(pick(rng, [1, 2]))
        shapes = []
        for k in range(2):
            m = [int(rng.integers(3, 8)) for _ in range(D)]
            n = [int(rng.integers(1, a + 1)) for a in m]
            shapes.append((m, n))
        strides = [[int(rng.integers(1, 4)) for _ in range(D)] for k in range(2)]
        seq = [[int(rng.integers(2)), int(rng.integers(2))] for k in range(6)]
        P.add("conv-history", shapes=shapes, strides=strides, seq=seq,
              mode=pick(rng, ["full", "valid"]), multi=bool(rng.random() < 0.3),
              dts=[pick(rng, ["complex128", "float64"]) for k in range(6)])
    return P.cases


def _innermost(e):
    while e.__cause__ is not None:
        e = e.__cause__
    return e


def run_history(case):
    import sigpy as sp
    rng = rng_for(case)
    mode, multi = case["mode"], case["multi"]
    sig = "history|%dd|%s|%s" % (len(case["shapes"][0][0]), mode, "mc" if multi else "sc")
    n_ = 0
    for (si, ti), dts in zip(case["seq"], case["dts"]):
        m, n = case["shapes"][si]
        st = case["strides"][ti]
        dshape = ([2] if multi else []) + m if not multi else [2, 2] + m
        fshape = n if not multi else [3, 2] + n
        kw = dict(mode=mode, strides=st, multi_channel=multi)
        d = crandn(rng, dshape, dts)
        f = crandn(rng, fshape)
        try:
            out = sp.convolve(d, f, **kw)
        except Exception:
            continue
        ref = O.convolve(d, f, mode, st, multi)
        y = crandn(rng, out.shape)
        da = sp.convolve_data_adjoint(y, f, dshape, **kw)
        fa = sp.convolve_filter_adjoint(y, d, fshape, **kw)
        lhs = inner(ref, y)
        r1, r2 = inner(d, da), inner(f, fa)
        sc = nrm(ref) * nrm(y) + 1e-300
        n_ += 3
        wit = {k: case[k] for k in ("shapes", "strides", "seq", "mode", "multi", "dts")}
        if out.shape != ref.shape or nrm(out - ref) > 1e-10 * (nrm(ref) + 1e-300):
            return violated(sig, "convolve differs from the definition after earlier calls "
                            "with other shapes/strides", wit, mech="history-forward")
        if abs(lhs - r1) > 1e-10 * (sc + nrm(d) * nrm(da)):
            return violated(sig, "convolve_data_adjoint is not the adjoint after earlier calls "
                            "with other shapes/strides in this process: %s vs %s (data %s, "
                            "filter %s, strides %s)" % (lhs, r1, m, n, st), wit,
                            mech="history-data-adjoint")
        if abs(lhs - r2) > 1e-10 * (sc + nrm(f) * nrm(fa)):
            return violated(sig, "convolve_filter_adjoint is not the adjoint after earlier "
                            "calls with other shapes/strides in this process: %s vs %s" % (
                                lhs, r2), wit, mech="history-filter-adjoint")
    if n_ == 0:
        return inconclusive("every call of the history was rejected")
    return held(sig, {"calls": n_}, n_, True)


def run_case(case):
    import sigpy as sp
    if case["gen"] == "conv-history":
        return run_history(case)
    rng = rng_for(case)
    m, n, mode, strides, multi = case["m"], case["n"], case["mode"], case["strides"], \
        case["multi"]
    D = len(m)
    dshape = case["batch"] + ([case["ci"]] if multi else []) + m
    fshape = ([case["co"], case["ci"]] if multi else []) + n
    lay = sum(case["rs"]) % 8            # 1-3: data F / T / strided; 5-7: filter likewise
    def draw(shape, dtn):
        if np.dtype(dtn).kind in "iu":
            lo = 0 if np.dtype(dtn).kind == "u" else -4
            return rng.integers(lo, 5, shape).astype(dtn)
        return crandn(rng, shape, dtn)
    with structured((sum(case["rs"]) // 3) % 10 if sum(case["rs"]) % 2 else 0):
        data = relayout(draw(dshape, case["dd"]), lay if lay < 4 else 0)
        filt = relayout(draw(fshape, case["df"]), lay - 4 if lay >= 4 else 0)
    if multi and sum(case["rs"]) % 7 == 5 and filt.ndim >= 3 and min(filt.shape[:2]) >= 1:
        # a filter bank applied to every input channel (or one filter for every output
        # channel), handed over as a np.broadcast_to view: zero stride along one channel axis
        ax_ = (sum(case["rs"]) // 7) % 2
        one_ = filt[:, :1] if ax_ == 1 else filt[:1]
        filt = np.broadcast_to(one_, filt.shape)
        sig_bc = "|broadcast-filter%d" % ax_
    else:
        sig_bc = ""
    if not multi and sum(case["rs"]) % 7 == 6 and int(np.prod(m)) >= 64 and \
            data.dtype.kind in "fc":
        # a sparse spike train: a few non-zero samples, two of them next to each other (closer
        # than the filter is long)
        sp_ = np.zeros_like(data)
        flat_ = sp_.reshape(sp_.shape[:len(sp_.shape) - D] + (-1,))
        j0 = int(rng.integers(0, flat_.shape[-1] - 1))
        flat_[..., j0] = 1.5
        flat_[..., j0 + 1] = -0.75
        flat_[..., int(rng.integers(0, flat_.shape[-1]))] += 2.0
        data = sp_
        sig_bc += "|spikes"
    if case["dd"] == "uint8" and np.dtype(case["df"]).kind in "iu":
        filt = np.abs(filt)           # (unsigned counts with non-negative taps: no wrap-around)
    integer = data.dtype.kind in "iu" and filt.dtype.kind in "iu"
    if integer:
        # keep the exact result representable in the operands' common integer type (a long
        # filter over uint8 / int16 counts would wrap around - not a question of convolution)
        rt_ = np.result_type(data.dtype, filt.dtype)
        bound_ = int(np.prod(n)) * (case["ci"] if multi else 1) * 16
        if bound_ > np.iinfo(rt_).max // 2:
            data = data.astype(np.int64)
    md, mf = case.get("mag", [1, 1])     # magnitudes: convolution is bilinear, so homogeneous
    if md != 1:
        data = data * data.dtype.type(md)
    if mf != 1:
        filt = filt * filt.dtype.type(mf)
    ge = all(a >= c for a, c in zip(m, n))
    le = all(a <= c for a, c in zip(m, n))
    relcls = "ge" if ge and not le else "le" if le and not ge else "eq" if ge else "mixed"
    sig = "|".join(map(str, [D, mode, relcls, "s" if strides else "-", "mc" if multi else "sc",
                             len(case["batch"]), case["dd"][0] + case["df"][0], case["via"]]))
    wit = {k: case[k] for k in ("m", "n", "mode", "strides", "multi", "ci", "co", "batch",
                                "dd", "df", "via")}
    sig += sig_bc
    defined = mode == "full" or ge or le
    kw = dict(mode=mode, strides=vary_seq(strides, (sum(case["rs"]) // 5) % 8),
              multi_channel=multi)
    d0, f0 = data.copy(order="C"), filt.copy(order="C")
    try:
        if case["via"] == "func" and sum(case["rs"]) % 4 == 1:
            # documented signature (data, filt, mode, strides, multi_channel), positional
            got = sp.convolve(data, filt, kw["mode"], kw["strides"], kw["multi_channel"])
            A = None
        elif case["via"] == "func":
            got = sp.convolve(data, filt, **kw)
            A = None
        else:
            A = sp.linop.ConvolveData(dshape, filt, **kw)
            got = A(data)
    except Exception as e:
        inn = _innermost(e)
        # rejected: acceptable for every combination ("computed correctly or rejected")
        if not defined:
            # neither operand contains the other: the adjoints have no meaning either and
            # must be rejected as well, not return an array of the requested shape
            from vf.lops import conv_out
            p_ = conv_out(m, n, strides or [1] * D, "valid")
            yshape = case["batch"] + ([case["co"]] if multi else []) + p_
            yy = crandn(rng, yshape)
            for nm_, call in (
                    ("convolve_data_adjoint",
                     lambda: sp.convolve_data_adjoint(yy, filt, dshape, **kw)),
                    ("convolve_filter_adjoint",
                     lambda: sp.convolve_filter_adjoint(yy, data, fshape, **kw))):
                try:
                    out_ = call()
                except Exception:
                    continue
                return violated(sig, "%s accepted a valid-mode shape pair where neither "
                                "operand contains the other (data %s, filter %s) and returned "
                                "an array of shape %s" % (nm_, m, n, np.shape(out_)), wit,
                                mech="mixed-accepted:" + nm_)
        r = held(sig + "|rejected", {"rejected": type(inn).__name__, "defined": defined}, 1,
                 nontrivial=not defined)
        r["tags"] = ["rejected:" + ("undefined-mixed" if not defined else relcls)]
        return r
    if not defined:
        return violated(sig, "valid-mode call with neither operand containing the other was "
                        "not rejected (returned shape %s)" % (got.shape,), wit,
                        mech="mixed-accepted")
    ref = (O.convolve_shift_add if case.get("big") else O.convolve)(d0, f0, mode, strides, multi)
    checks = 1
    if tuple(got.shape) != tuple(ref.shape):
        return violated(sig, "returned shape %s, definition gives %s (neither computed "
                        "correctly nor rejected)" % (got.shape, ref.shape), wit, mech="shape")
    if A is not None and [int(v) for v in A.oshape] != list(ref.shape):
        return violated(sig, "ConvolveData advertises oshape %s, definition gives %s" % (
            A.oshape, list(ref.shape)), wit, mech="advertised")
    sc = nrm(ref) + 1e-3 * nrm(d0) * nrm(f0) + 1e-300
    e = nrm(got - ref) / sc
    obs = {"rel": e}
    single = case["dd"] in ("complex64", "float32") or case["df"] in ("complex64", "float32")
    if not e <= (1e-4 if single else 1e-10):
        return violated(sig, "differs from the convolution definition: rel %.3g" % e, wit,
                        mech="value", obs=obs)
    if integer and got.dtype.kind in "iu":
        # integer operands, integer result: exact, not merely close
        checks += 1
        nwrong = int(np.sum(got.astype(np.int64) != np.asarray(ref).real.astype(np.int64)))
        if nwrong and int(np.max(np.abs(ref))) < np.iinfo(got.dtype).max:
            return violated(sig, "integer convolution is not exact: %d of %d samples differ "
                            "from the definition" % (nwrong, got.size), wit, mech="value-int",
                            obs=obs)
    if not (np.array_equal(data, d0) and np.array_equal(filt, f0)):
        return violated(sig, "operand modified", wit, mech="mutated")
    # unit impulses
    di = np.zeros(dshape, np.complex128)
    di.reshape(-1)[int(rng.integers(di.size))] = 1
    fi = np.zeros(fshape, np.complex128)
    fi.reshape(-1)[int(rng.integers(fi.size))] = 1j
    try:
        gi = sp.convolve(di, fi, **kw)
        ri = (O.convolve_shift_add if case.get("big") else O.convolve)(di, fi, mode, strides,
                                                                      multi)
        checks += 1
        if gi.shape != ri.shape or nrm(gi - ri) > 1e-12:
            return violated(sig, "impulse response misplaced", wit, mech="impulse")
    except Exception as e:
        return violated(sig, "impulse pair raised %s although the random pair of the same "
                        "shapes was computed" % type(_innermost(e)).__name__, wit,
                        mech="raised")
    # adjoints (complex operands so that conjugation errors show)
    # adjoint operands: every real/complex mix (the adjoint is defined for any complex y,
    # real ones included; a real y with a complex filter is where a misplaced conjugate hides)
    mix = case["rs"][-1] % 4
    dc = crandn(rng, dshape, np.complex128 if mix in (0, 1) else np.float64)
    fc = crandn(rng, fshape, np.complex128 if mix in (0, 2, 3) else np.float64)
    y = crandn(rng, ref.shape, np.complex128 if mix in (0, 2) else np.float64)
    dc, fc = dc * md, fc * mf
    if "broadcast-filter" in sig_bc:
        ax_ = int(sig_bc.split("broadcast-filter")[1][0])
        fc = np.broadcast_to(fc[:, :1] if ax_ == 1 else fc[:1], fc.shape)
    try:
        out = sp.convolve(dc, fc, **kw)
        if sum(case["rs"]) % 4 == 1:
            da = sp.convolve_data_adjoint(y, fc, dshape, kw["mode"], kw["strides"],
                                          kw["multi_channel"])
            fa = sp.convolve_filter_adjoint(y, dc, fshape, kw["mode"], kw["strides"],
                                            kw["multi_channel"])
        else:
            da = sp.convolve_data_adjoint(y, fc, dshape, **kw)
            fa = sp.convolve_filter_adjoint(y, dc, fshape, **kw)
    except Exception as e:
        inn = _innermost(e)
        return violated(sig, "adjoint call raised %s: %s for a combination convolve accepts"
                        % (type(inn).__name__, str(inn)[:150]), wit, mech="adjoint-raised")
    checks += 2
    if tuple(da.shape) != tuple(dshape) or tuple(fa.shape) != tuple(fshape):
        return violated(sig, "adjoint shapes %s / %s, requested %s / %s" % (
            da.shape, fa.shape, dshape, fshape), wit, mech="adjoint-shape")
    lhs = inner(out, y)
    r1 = inner(dc, da)
    r2 = inner(fc, fa)
    s1 = nrm(out) * nrm(y) + nrm(dc) * nrm(da) + 1e-300
    s2 = nrm(out) * nrm(y) + nrm(fc) * nrm(fa) + 1e-300
    obs.update(data_adj=abs(lhs - r1) / s1, filt_adj=abs(lhs - r2) / s2)
    if not abs(lhs - r1) <= 1e-10 * s1:
        return violated(sig, "convolve_data_adjoint is not the adjoint: %s vs %s" % (lhs, r1),
                        wit, mech="data-adjoint", obs=obs)
    if not abs(lhs - r2) <= 1e-10 * s2:
        return violated(sig, "convolve_filter_adjoint is not the adjoint: %s vs %s" % (
            lhs, r2), wit, mech="filter-adjoint", obs=obs)
    if sum(case["rs"]) % 3 == 0:
        # rejected calls in between (operands whose shapes do not fit the requested output):
        # the caller's arrays must come back untouched and the valid call must repeat
        dk, fk = dc.copy(), fc.copy()
        ybad = y[..., :-1] if y.shape[-1] > 1 else np.concatenate([y, y], axis=-1)
        for bad in (lambda: sp.convolve_filter_adjoint(ybad, dc, fshape, **kw),
                    lambda: sp.convolve_data_adjoint(ybad, fc, dshape, **kw),
                    lambda: sp.convolve_filter_adjoint(y[None], dc, fshape, **kw),
                    lambda: sp.convolve(dc[..., None], fc, **kw)):
            try:
                bad()
            except Exception:
                pass
        checks += 1
        if not (np.array_equal(dc, dk) and np.array_equal(fc, fk)):
            return violated(sig, "a rejected call (operand shapes that do not fit) left the "
                            "caller's data / filter array modified", wit,
                            mech="mutated-on-failure")
        out2 = sp.convolve(dc, fc, **kw)
        if out2.shape != out.shape or not np.array_equal(out2, out):
            return violated(sig, "the same convolution gives another result after rejected "
                            "calls in between", wit, mech="history-after-failure")
    if sum(case["rs"]) % 3 == 1 and fc.flags.writeable:
        # history: the caller updates its operand arrays in place (the next filter estimate of
        # an alternating minimisation, the next frame) and calls again with the SAME objects:
        # identical to calls on fresh copies of the new values
        fc *= fc.dtype.type(0.5) if fc.dtype.kind == "f" else fc.dtype.type(0.5 - 1j)
        fc.reshape(-1)[::2] *= -1
        dc += dc.dtype.type(0.25)
        try:
            same = (sp.convolve(dc, fc, **kw), sp.convolve_data_adjoint(y, fc, dshape, **kw),
                    sp.convolve_filter_adjoint(y, dc, fshape, **kw))
            fresh = (sp.convolve(dc.copy(), fc.copy(), **kw),
                     sp.convolve_data_adjoint(y.copy(), fc.copy(), dshape, **kw),
                     sp.convolve_filter_adjoint(y.copy(), dc.copy(), fshape, **kw))
        except Exception as e:
            return violated(sig, "call after an in-place update of the operands raised %s" %
                            type(_innermost(e)).__name__, wit, mech="arg-update")
        for nm_, a_, b_ in zip(("convolve", "convolve_data_adjoint", "convolve_filter_adjoint"),
                               same, fresh):
            checks += 1
            if a_.shape != b_.shape or not np.array_equal(a_, b_, equal_nan=True):
                return violated(sig, "%s: after the caller updated the data / filter arrays in "
                                "place, a call with the same objects differs from a call on "
                                "fresh copies of the new values (max diff %.3g)" % (
                                    nm_, float(np.max(np.abs(a_ - b_)))), wit,
                                mech="arg-update:" + nm_)
        sig += "|arg-update"
    if not multi and list(dshape) == list(fshape) and mode == "full":
        # the same array object as data and as filter (auto-convolution)
        try:
            ac = sp.convolve(dc, dc, **kw)
        except Exception as e:
            return violated(sig, "auto-convolution (same array as data and filter) raised %s"
                            % type(e).__name__, wit, mech="same-object")
        rc = (O.convolve_shift_add if case.get("big") else O.convolve)(dc, dc.copy(), mode,
                                                                      strides, multi)
        checks += 1
        if ac.shape != rc.shape or nrm(ac - rc) > 1e-10 * (nrm(rc) + 1e-300):
            return violated(sig, "convolve(x, x) with the same array object differs from the "
                            "definition", wit, mech="same-object")
    nontrivial = int(np.prod(n)) > 1 or multi
    r = held(sig, obs, checks, nontrivial)
    r["tags"] = ["computed:" + mode + ":" + relcls]
    return r
