"""C11 - every proximal operator returns the exact minimiser, in the input's shape.

Deciding monitor: the icontract postcondition on sigpy.prox.Prox.__call__
(vf.monitors.prox_mon): per-class optimality certificates (KKT / subgradient
conditions), shape, finiteness, plus an independent variational spot check
(Phi(x) <= Phi(z) for feasible perturbations z) on a deterministic 20 % of the calls,
and "raised for a well-formed input" recorded by the outer wrapper.  This workload drives
all classes and nestings with hostile inputs; the thresholding functions are checked
through the same certificates (they are what the Prox classes wrap), and projections
are additionally checked for idempotence.
Tolerance: 1e-9 * max(1, |y|max) (float64), 2e-4 for single precision.
"""
import numpy as np

from vf.common import Plan, crandn, held, violated, inconclusive, rng_for, nrm, pick
from vf import repo_tests
from vf.common import structured, STRUCT_KINDS
from vf.monitors import prox_mon
from vf.monitors import STATE
from vf.monitors import prox_mon

SPEC = {
    "rule": ("cases = (prox class or nesting, shape 1-3 dims, alpha in 1e-3..1e2 (array-valued "
             "for Stack), parameters, input class [gaussian/zeros/exactly on the threshold or "
             "ball boundary/interior/ties; PSD: symmetric, Hermitian, non-Hermitian, rank-"
             "deficient, repeated eigenvalues, identity, zero], real/complex); distinct = class "
             "+ nesting + input class + dtype + ndim + certificate branch; non-trivial = input "
             "with at least one non-zero entry or a boundary construction"),
    "boundscheck": {"quick": False, "thorough": True},
    "case_timeout": 120.0,
    "deciding_monitors": ["Prox.__call__:contract", "Prox.__call__:certified", "in:layout:F", "in:layout:strided", "in:complex64", "in:float32"],
    "assumptions": ["BoxConstraint is only defined for real data (complex inputs are skipped "
                    "by the certificate)", "UnitaryTransform is certified only when the given "
                    "operator is verified unitary on the shape"],
}

CLASSES = ["L1Reg", "L1Reg-arr", "L2Reg", "L2Reg-y", "L2Reg-L1", "L2Reg-Box",
           "L2Proj", "L2Proj-y", "L2Proj-axes", "LInfProj", "LInfProj-bias", "L1Proj",
           "PsdProj", "Box", "Box-arr", "NoOp", "Conj-L1Reg", "Conj-L2Reg-y", "Conj-L2Proj",
           "Conj-LInfProj", "Conj-L1Proj", "Conj-Box", "Conj-Stack", "Stack", "Stack-alpha",
           "Stack-Conj", "Unitary-FFT", "Unitary-Haar", "Unitary-Transpose", "Unitary-Conj",
           "Stack-nested", "Conj-Conj-L1Reg", "Conj-Conj-L2Proj", "Stack-of-one",
           "Unitary-nested",
           "fn-soft_thresh", "fn-l1_proj", "fn-l2_proj", "fn-linf_proj", "fn-psd_proj",
           "fn-hard_thresh"]
# classes that accept integer-dtype data on the unchanged tree (the thresholding family; the
# in-place formulas of L2Reg / Box reject it loudly with NumPy's casting error)
INT_OK = ("L1Reg", "L1Reg-arr", "LInfProj", "L1Proj", "L2Proj", "Conj-L1Reg", "Conj-LInfProj",
          "Conj-L1Proj")
INPUTS = ["gauss", "gauss-big", "zeros", "boundary", "interior", "ties", "tiny", "huge",
          "const", "onehot", "pow2", "small-int", "alternating", "zeros-mixed", "denormal"]
PSD_INPUTS = ["sym", "herm", "nonherm", "rankdef", "repeated", "identity", "zero", "psd",
              "negdef", "psd-plus-skew", "skew", "triangular"]


def plan(tier, seed):
    P = Plan(11, seed)
    quick = tier == "quick"
    rng = P.rng("prox")
    reps = 4 if quick else 50
    for cls in CLASSES:
        inputs = PSD_INPUTS if "Psd" in cls or "psd" in cls else INPUTS
        for inp in inputs:
            for i in range(reps):
                P.add("prox", cls=cls, inp=inp, pseed=int(rng.integers(1 << 30)),
                      cplx=bool(rng.random() < 0.6), single=bool(rng.random() < 0.2),
                      npscalar=bool(rng.random() < 0.25), big=bool(i % 4 == 3),
                      scale=(pick(rng, [1e-9, 1e-9, 1e6]) if i % 4 == 2 and inp in (
                          "gauss", "boundary", "interior", "ties", "sym", "herm", "nonherm",
                          "psd", "rankdef") else 1.0))
    # user-defined proximal operators inside the combinators: subclasses of library classes that
    # override _prox (a non-negative l1 penalty derived from L1Reg, a shifted box derived from
    # BoxConstraint) and a class derived from Prox itself.  Conj must be the Moreau identity of
    # whatever object it wraps, Stack and UnitaryTransform must call it
    for i in range(24 if quick else 300):
        P.add("user-prox", kind=pick(rng, ["nonneg-l1", "nonneg-l1", "shifted-box", "own-l2ball"]),
              wrap=pick(rng, ["Conj", "Conj", "Stack", "Unitary", "Conj-Conj"]),
              pseed=int(rng.integers(1 << 30)))
    # thousands of entries (an image's worth of coefficients): projections whose support is a
    # large part of the vector, thresholds over long arrays - size-gated code paths
    for cls in ("L1Proj", "fn-l1_proj", "Conj-L1Proj", "L2Reg-L1Proj", "Stack", "L1Reg",
                "fn-soft_thresh", "L2Proj", "LInfProj", "fn-l2_proj", "Unitary-FFT", "Box"):
        if cls not in CLASSES:
            continue
        for i in range(3 if quick else 24):
            P.add("prox", cls=cls, inp=pick(rng, ["gauss", "gauss", "ties", "interior",
                                                  "boundary"]),
                  pseed=int(rng.integers(1 << 30)), cplx=bool(rng.random() < 0.6),
                  single=bool(rng.random() < 0.2), npscalar=False, big=True, huge=True, scale=1.0)
    if tier == "thorough" and repo_tests.available():
        # the repository's own test suite as one more workload under the always-on monitors
        P.add("repo-tests", timeout=1800.0, fresh=True)
    return P.cases


_BIG = [False]
_HUGE = [False]
_SC = [1.0]        # whole-problem scale: data, radii, biases, bounds and l1 weights together


def _shape(rng, pow2=False):
    nd = int(rng.integers(1, 4))
    if _HUGE[0]:
        if pow2:
            return [int(pick(rng, [64, 128])), 64]
        return [[int(rng.integers(4200, 9000))], [int(rng.integers(66, 100)),
                                                   int(rng.integers(64, 90))],
                [int(rng.integers(17, 22)), 16, int(rng.integers(16, 20))]][nd - 1]
    if _BIG[0]:
        # size-dependent regime: vectors past 16 / 32 / 64 entries, 2-D / 3-D arrays with
        # several hundred entries
        if pow2:
            return [int(pick(rng, [16, 32, 64])) for _ in range(min(nd, 2))]
        return [int(rng.integers(*[(16, 80), (8, 24), (4, 9)][nd - 1])) for _ in range(nd)]
    if pow2:
        return [int(pick(rng, [2, 4, 8])) for _ in range(min(nd, 2))]
    return [int(rng.integers(1, 6)) for _ in range(nd)]


def build(cls, rng, cplx):
    """Returns (P, shape, info) where info describes set parameters for input construction."""
    import sigpy as sp
    PR = sp.prox
    dt = np.complex128 if cplx else np.float64
    S = _SC[0]
    lam = float(10 ** rng.uniform(-3, 2))
    eps = float(10 ** rng.uniform(-2, 1.5)) * S
    shape = _shape(rng, pow2=(cls == "Unitary-Haar"))
    if _HUGE[0]:
        # radius a sizeable fraction of the data's l1 norm: the projection keeps thousands of
        # entries (E|y_i| is about one for the Gaussian inputs)
        eps = float(rng.uniform(0.05, 0.9)) * int(np.prod(shape)) * S

    def arr(s=None, d=None):
        return crandn(rng, s or shape, d or dt) * S
    if cls == "L1Reg":
        return PR.L1Reg(shape, lam * S), shape, {"k": "l1", "lam": lam * S}
    if cls == "L1Reg-arr":
        lamv = np.abs(arr(shape, np.float64)) + 0.01 * S
        return PR.L1Reg(shape, lamv), shape, {"k": "l1", "lam": lamv}
    if cls == "L2Reg":
        return PR.L2Reg(shape, lam), shape, {"k": "free"}
    if cls == "L2Reg-y":
        return PR.L2Reg(shape, lam, y=arr()), shape, {"k": "free"}
    if cls == "L2Reg-L1":
        return PR.L2Reg(shape, lam, y=arr(), proxh=PR.L1Reg(shape, eps)), shape, {"k": "free"}
    if cls == "L2Reg-Box":
        return PR.L2Reg(shape, lam, y=crandn(rng, shape, np.float64) * S,
                        proxh=PR.BoxConstraint(shape, -eps, eps)), shape, {"k": "real"}
    if cls == "L2Reg-L1Proj":
        return PR.L2Reg(shape, lam, proxh=PR.L1Proj(shape, eps)), shape, {"k": "free"}
    if cls == "L2Proj":
        return PR.L2Proj(shape, eps), shape, {"k": "l2ball", "eps": eps, "b": 0}
    if cls == "L2Proj-y":
        b = arr()
        return PR.L2Proj(shape, eps, y=b), shape, {"k": "l2ball", "eps": eps, "b": b}
    if cls == "L2Proj-axes":
        ax = [int(rng.integers(-len(shape), len(shape)))]
        return PR.L2Proj(shape, eps, axes=ax), shape, {"k": "free"}
    if cls == "LInfProj":
        return PR.LInfProj(shape, eps), shape, {"k": "linf", "eps": eps, "b": 0}
    if cls == "LInfProj-bias":
        b = arr()
        return PR.LInfProj(shape, eps, bias=b), shape, {"k": "linf", "eps": eps, "b": b}
    if cls == "L1Proj":
        return PR.L1Proj(shape, eps), shape, {"k": "l1ball", "eps": eps}
    if cls == "PsdProj":
        n = int(rng.integers(1, 6))
        return PR.PsdProj([n, n]), [n, n], {"k": "psd"}
    if cls == "Box":
        return PR.BoxConstraint(shape, -eps, eps / 2), shape, \
            {"k": "box", "lo": -eps, "hi": eps / 2}
    if cls == "Box-arr":
        lo = -np.abs(crandn(rng, shape, np.float64)) * S
        hi = lo + np.abs(crandn(rng, shape, np.float64)) * S
        return PR.BoxConstraint(shape, lo, hi), shape, {"k": "box", "lo": lo, "hi": hi}
    if cls == "NoOp":
        return PR.NoOp(shape), shape, {"k": "free"}
    if cls.startswith("Conj-") and cls != "Conj-Stack" and not cls.startswith("Conj-Conj-"):
        inner = {"L1Reg": "L1Reg", "L2Reg-y": "L2Reg-y", "L2Proj": "L2Proj-y",
                 "LInfProj": "LInfProj-bias", "L1Proj": "L1Proj", "Box": "Box"}[cls[5:]]
        p, s, info = build(inner, rng, cplx)
        return PR.Conj(p), s, {"k": "real" if inner == "Box" else "free"}
    if cls.startswith("Conj-Conj-"):
        # nesting depth two: the conjugate of the conjugate is the function itself
        p, s, info = build(cls[10:] if cls[10:] != "L2Proj" else "L2Proj-y", rng, cplx)
        return PR.Conj(PR.Conj(p)), s, {"k": "free"}
    if cls in ("Stack-nested", "Stack-of-one"):
        # stacks inside stacks (and a stack with a single member): the splitting of the
        # flattened vector recurses
        def leafp():
            return build(pick(rng, ["L1Reg", "L2Reg-y", "L2Proj-y", "LInfProj", "NoOp"]),
                         rng, cplx)[0]
        if cls == "Stack-of-one":
            st = PR.Stack([leafp()])
        else:
            inner = PR.Stack([leafp() for _ in range(int(rng.integers(1, 4)))])
            members = [leafp() for _ in range(int(rng.integers(0, 3)))]
            members.insert(int(rng.integers(0, len(members) + 1)), inner)
            if rng.random() < 0.4:
                members.append(PR.Stack([PR.Stack([leafp()]), leafp()]))
            st = PR.Stack(members)
        return st, list(st.shape), {"k": "free", "stack": ["nested"]}
    if cls in ("Stack", "Stack-alpha", "Conj-Stack", "Stack-Conj"):
        names = [pick(rng, ["L1Reg", "L2Reg-y", "L2Proj-y", "LInfProj", "NoOp", "L1Proj"])
                 for _ in range(int(rng.integers(2, 4)))]
        ps = [build(n, rng, cplx)[0] for n in names]
        if rng.random() < 0.35:
            # one prox object in several slots (a regulariser shared by several blocks): every
            # slot still gets its own block of the input and of the step sizes
            j_ = int(rng.integers(len(ps)))
            k_ = int(rng.integers(len(ps) + 1))
            ps.insert(k_, ps[j_])
            names.insert(k_, names[j_])
        if cls == "Stack-Conj":
            ps = [PR.Conj(p) if rng.random() < 0.6 else p for p in ps]
        st = PR.Stack(ps)
        if cls == "Conj-Stack":
            st = PR.Conj(st)
        return st, list(st.shape), {"k": "free", "stack": names}
    if cls == "Unitary-nested":
        # two unitary transforms that do not commute (flip / circular shift / FFT / unit-modulus
        # multiplier) around a prox that is not invariant under them (weighted l1, l2 with a
        # bias, element-wise box): the outer operator acts on the input first
        def unitary():
            k_ = pick(rng, ["flip", "shift", "fft", "phase"] if cplx else ["flip", "shift"])
            if k_ == "flip":
                return sp.linop.Flip(shape, axes=[int(rng.integers(len(shape)))])
            if k_ == "shift":
                return sp.linop.Circshift(shape, [int(rng.integers(1, 3))], axes=[-1])
            if k_ == "fft":
                return sp.linop.FFT(shape, axes=[-1])
            return sp.linop.Multiply(shape, np.exp(2j * np.pi * rng.random(shape)))
        A1, A2 = unitary(), unitary()
        inner_cls = pick(rng, ["L1Reg-arr", "L2Reg-y", "LInfProj-bias"])
        if inner_cls == "L1Reg-arr":
            lamv = np.abs(crandn(rng, shape, np.float64)) * S + 0.01 * S
            p_ = PR.L1Reg(shape, lamv)
        elif inner_cls == "L2Reg-y":
            p_ = PR.L2Reg(shape, lam, y=arr())
        else:
            p_ = PR.LInfProj(shape, eps, bias=arr())
        # independent reference, from the definition: the outer operator acts on the input first
        #   prox_{g(A1 A2 .)}(y) = A2^H A1^H prox_g(A1 A2 y)
        ref_ = lambda a_, y_: A2.H(A1.H(p_(a_, A1(A2(y_)))))          # noqa: E731
        return PR.UnitaryTransform(PR.UnitaryTransform(p_, A1), A2), shape, \
            {"k": "free", "ref": ref_}
    if cls.startswith("Unitary-"):
        if cls == "Unitary-FFT":
            A = sp.linop.FFT(shape, axes=None if rng.random() < 0.5 else [-1])
        elif cls == "Unitary-Haar":
            A = sp.linop.Wavelet(shape, wave_name="haar")
        elif cls == "Unitary-Transpose":
            A = sp.linop.Transpose(shape, axes=tuple(int(a) for a in
                                                     rng.permutation(len(shape))))
        else:
            A = sp.linop.FFT(shape)
            return PR.UnitaryTransform(PR.Conj(PR.L1Reg(A.oshape, lam * S)), A), shape, \
                {"k": "free"}
        inner = pick(rng, ["L1Reg", "L2Proj", "LInfProj", "L1Proj"])
        ishape = list(A.oshape)
        p = {"L1Reg": lambda: PR.L1Reg(ishape, lam * S), "L2Proj": lambda: PR.L2Proj(ishape, eps),
             "LInfProj": lambda: PR.LInfProj(ishape, eps),
             "L1Proj": lambda: PR.L1Proj(ishape, eps)}[inner]()
        return PR.UnitaryTransform(p, A), shape, {"k": "free"}
    raise ValueError(cls)


def make_input(rng, inp, shape, cplx, info, alpha):
    dt = np.complex128 if cplx else np.float64
    k = info["k"]
    if k == "real":
        dt = np.float64
    if k == "box":
        dt = np.float64
    y = crandn(rng, shape, dt)
    if inp in ("const", "onehot", "pow2", "small-int", "alternating", "zeros-mixed",
               "denormal"):
        # data with structure Gaussian draws never have (equal entries, a single non-zero,
        # exact powers of two, small integers, alternating signs)
        with structured(STRUCT_KINDS.index(inp)):
            return crandn(rng, shape, dt) * _SC[0]
    if inp == "gauss":
        return y * float(10 ** rng.uniform(-1, 1)) * _SC[0]
    if inp == "gauss-big":
        return y * 1e3 * _SC[0]
    if inp == "tiny":
        return y * 1e-9
    if inp == "huge":
        return y * 1e8
    if inp == "zeros":
        return np.zeros(shape, dt)
    ph = y / np.maximum(np.abs(y), 1e-300)
    if inp == "ties":
        return ph * float(10 ** rng.uniform(-1, 1)) * _SC[0]   # equal magnitudes everywhere
    if k == "l1":
        t = np.broadcast_to(np.asarray(info["lam"]) * alpha, shape)
        if inp == "boundary":                                 # |y_i| = alpha*lam exactly
            m = rng.random(shape) < 0.6
            return np.where(m, ph * t, y)
        return ph * t * 0.5
    if k == "l2ball":
        d = y / max(nrm(y), 1e-300) * info["eps"]
        return info["b"] + (d if inp == "boundary" else 0.5 * d)
    if k == "linf":
        if inp == "boundary":
            m = rng.random(shape) < 0.6
            return info["b"] + np.where(m, ph * info["eps"], y)
        return info["b"] + ph * info["eps"] * rng.random(shape)
    if k == "l1ball":
        d = y / max(float(np.sum(np.abs(y))), 1e-300) * info["eps"]
        return d if inp == "boundary" else 0.5 * d
    if k == "box":
        lo = np.broadcast_to(np.asarray(info["lo"], float), shape)
        hi = np.broadcast_to(np.asarray(info["hi"], float), shape)
        if inp == "boundary":
            return np.where(rng.random(shape) < 0.5, lo, hi).astype(float)
        return lo + (hi - lo) * rng.random(shape)
    return y


def make_psd_input(rng, inp, n, cplx):
    dt = np.complex128 if cplx else np.float64
    G = crandn(rng, [n, n], dt)
    Q, _ = np.linalg.qr(crandn(rng, [n, n], dt))
    if inp == "sym" or inp == "herm":
        return (G + G.conj().T) / 2
    if inp == "nonherm":
        return G
    if inp == "rankdef":
        v = crandn(rng, [n, 1], dt)
        return v @ v.conj().T - 0.5 * (Q[:, :1] @ Q[:, :1].conj().T)
    if inp == "repeated":
        w = np.array(([2.0, 2.0, -1.0, -1.0, 0.5] * 2)[:n])
        return (Q * w) @ Q.conj().T
    if inp == "identity":
        return np.eye(n, dtype=dt)
    if inp == "zero":
        return np.zeros((n, n), dt)
    if inp == "psd":
        return G @ G.conj().T
    if inp == "negdef":
        return -(G @ G.conj().T) - np.eye(n)
    if inp == "psd-plus-skew":
        # not Hermitian, but its Hermitian part is positive semi-definite: the projection is
        # that Hermitian part, not the matrix itself
        K = crandn(rng, [n, n], dt)
        return G @ G.conj().T + (K - K.conj().T)
    if inp == "skew":
        return G - G.conj().T
    if inp == "triangular":
        return np.triu(G) + np.diag(np.full(n, 3.0 * n)).astype(dt)
    raise ValueError(inp)


class _Fake:
    """Stand-in prox objects so that the thresholding *functions* go through the same
    certificates as the classes that wrap them."""


def run_fn(case, rng):
    import sigpy as sp
    PR = sp.prox
    cls, inp, cplx = case["cls"], case["inp"], case["cplx"]
    name = cls[3:]
    shape = _shape(rng)
    sig = "%s|%s|%s|%dd" % (cls, inp, "c" if cplx else "r", len(shape))
    wit = dict(case)
    lam = float(10 ** rng.uniform(-2, 1))
    if name == "psd_proj":
        n = int(rng.integers(1, 6))
        y = make_psd_input(rng, inp, n, cplx)
        x = sp.psd_proj(y)
        P = PR.PsdProj([n, n])
    elif name == "soft_thresh":
        info = {"k": "l1", "lam": lam}
        y = make_input(rng, inp, shape, cplx, info, 1.0)
        x = sp.soft_thresh(lam, y)
        P = PR.L1Reg(shape, lam)
    elif name == "hard_thresh":
        y = make_input(rng, inp, shape, cplx, {"k": "l1", "lam": lam}, 1.0)
        x = sp.hard_thresh(lam, y)
        ref = np.where(np.abs(y) > lam, y, 0)
        # |y| == lam ties: numba's and numpy's complex abs may differ by one ulp
        tie = np.abs(np.abs(y) - lam) <= 1e-12 * lam
        if x.shape != y.shape or not np.array_equal(x[~tie], ref[~tie]) or \
                np.any((x[tie] != 0) & (x[tie] != y[tie])):
            return violated(sig, "hard_thresh differs from its definition", wit,
                            mech="fn:hard_thresh")
        return held(sig, {}, 1)
    elif name == "l1_proj":
        if _HUGE[0]:
            lam = float(rng.uniform(0.05, 0.9)) * int(np.prod(shape))
        info = {"k": "l1ball", "eps": lam}
        y = make_input(rng, inp, shape, cplx, info, 1.0)
        x = sp.l1_proj(lam, y)
        P = PR.L1Proj(shape, lam)
    elif name == "l2_proj":
        info = {"k": "l2ball", "eps": lam, "b": 0}
        y = make_input(rng, inp, shape, cplx, info, 1.0)
        x = sp.l2_proj(lam, y)
        P = PR.L2Proj(shape, lam)
    elif name == "linf_proj":
        b = crandn(rng, shape, np.complex128 if cplx else np.float64) \
            if rng.random() < 0.5 else None
        info = {"k": "linf", "eps": lam, "b": 0 if b is None else b}
        y = make_input(rng, inp, shape, cplx, info, 1.0)
        x = sp.linf_proj(lam, y, bias=b)
        P = PR.LInfProj(shape, lam, bias=b)
    ok, branch, detail = prox_mon.certificate(P, 1.0, y, x)
    sig += "|" + branch
    if ok is False:
        return violated(sig, "%s: %s" % (name, detail), wit, mech="fn:" + name + ":" + branch)
    if ok is None:
        return inconclusive("certificate not applicable: " + branch)
    return held(sig, {}, 1, bool(np.any(y != 0)) or inp in ("boundary", "zeros"))


def run_user(case):
    import sigpy as sp
    PR = sp.prox
    rng = np.random.default_rng(case["pseed"])
    n = int(rng.integers(2, 9))
    shape = [n]
    lam = float(10 ** rng.uniform(-1, 0.5))

    class NonNegL1(PR.L1Reg):            # lam ||x||_1 + indicator(x >= 0), real data
        def _prox(self, alpha, input):
            return np.maximum(input - self.lamda * alpha, 0)

    class ShiftedBox(PR.BoxConstraint):  # box moved by one unit
        def _prox(self, alpha, input):
            return np.clip(input, self.lower + 1.0, self.upper + 1.0)

    class OwnL2Ball(PR.Prox):            # projection onto the l2 ball of radius r
        def __init__(self, shape, r):
            self.r = r
            super().__init__(shape)

        def _prox(self, alpha, input):
            nr = float(np.linalg.norm(input))
            return input * min(1.0, self.r / nr) if nr > 0 else input
    inner = {"nonneg-l1": lambda: NonNegL1(shape, lam),
             "shifted-box": lambda: ShiftedBox(shape, -0.5, 0.7),
             "own-l2ball": lambda: OwnL2Ball(shape, lam)}[case["kind"]]()
    y = rng.standard_normal(n) * 2
    alpha = float(10 ** rng.uniform(-1, 1))
    sig = "user-prox|%s|%s" % (case["kind"], case["wrap"])
    wit = dict(case)

    def direct(a_, v_):
        return np.asarray(inner(a_, v_))
    try:
        if case["wrap"] == "Conj":
            got = PR.Conj(inner)(alpha, y)
            ref = y - alpha * direct(1 / alpha, y / alpha)
        elif case["wrap"] == "Conj-Conj":
            got = PR.Conj(PR.Conj(inner))(alpha, y)
            ref = direct(alpha, y)
        elif case["wrap"] == "Stack":
            other = PR.L2Reg([3], 0.3)
            y2 = rng.standard_normal(3)
            got = PR.Stack([other, inner])(alpha, np.concatenate([y2, y]))
            ref = np.concatenate([np.asarray(other(alpha, y2)), direct(alpha, y)])
        else:
            A = sp.linop.Flip(shape, axes=[0])
            got = PR.UnitaryTransform(inner, A)(alpha, y)
            ref = direct(alpha, y[::-1])[::-1]
    except Exception as e:
        inn = e
        while inn.__cause__ is not None:
            inn = inn.__cause__
        return violated(sig, "a combinator around a user-defined prox raised %s: %s" % (
            type(inn).__name__, str(inn)[:150]), wit, mech="user-prox-raised")
    got = np.asarray(got)
    if got.shape != ref.shape or not np.max(np.abs(got - ref)) <= 1e-12 * (1 + np.max(np.abs(y))):
        return violated(sig, "%s around a user-defined prox (%s) does not return what the "
                        "wrapped object's own prox implies: max difference %.3g" % (
                            case["wrap"], case["kind"],
                            float(np.max(np.abs(got - ref))) if got.shape == ref.shape else
                            np.inf), wit, mech="user-prox:" + case["wrap"])
    return held(sig, {}, 1, True)


def run_case(case):
    if case["gen"] == "repo-tests":
        return repo_tests.run("C11")
    if case["gen"] == "user-prox":
        return run_user(case)
    rng = np.random.default_rng(case["pseed"])
    _BIG[0] = bool(case.get("big"))
    _HUGE[0] = bool(case.get("huge"))
    _SC[0] = float(case.get("scale", 1.0))
    cls, inp, cplx = case["cls"], case["inp"], case["cplx"]
    if cls.startswith("fn-"):
        return run_fn(case, rng)
    P, shape, info = build(cls, rng, cplx)
    if ("Stack" in cls and cls == "Stack-alpha") or (
            case["pseed"] % 5 == 0 and cls in ("L1Reg", "L2Reg", "L2Reg-y", "Conj-L1Reg",
                                               "Conj-L2Reg-y", "Conj-L2Proj", "Conj-LInfProj",
                                               "L2Reg-L1", "L2Reg-Box",
                                               "L1Reg-arr", "Box", "LInfProj")):
        # element-wise step sizes (as the accelerated primal-dual solver passes them)
        alpha = np.abs(crandn(rng, shape, np.float64)) * float(10 ** rng.uniform(-2, 1)) + 1e-3
    else:
        alpha = float(10 ** rng.uniform(-3, 2))
    if info["k"] == "psd":
        y = make_psd_input(rng, inp, shape[0], cplx) * _SC[0]
    else:
        y = make_input(rng, inp, shape, cplx, info,
                       alpha if np.ndim(alpha) == 0 else 1.0)
    if case["pseed"] % 7 == 0 and np.ndim(alpha) == 0:
        alpha = pick(rng, [1, 1.0])                 # unit step: a natural special case
    if case["pseed"] % 3 == 0:
        # history: the first use of this prox object is on REAL data of the same shape
        nev = len(STATE.events)
        try:
            P(float(np.ndim(alpha) == 0 and alpha or 0.7),
              np.ascontiguousarray(np.real(y)).astype(np.float64) * 0.9 + 0.05)
        except Exception:
            # real data meeting complex parameters is rejected loudly by numpy's casting rule
            # (e.g. L2Reg with a complex bias): not a question of optimality - forget it
            del STATE.events[nev:]
    if case.get("single") and "Psd" not in cls:
        y = y.astype(np.complex64 if np.iscomplexobj(y) else np.float32)
    if case["pseed"] % 9 == 5 and not cplx and _SC[0] == 1.0 and cls in INT_OK and \
            np.ndim(alpha) == 0:
        # real data held in an integer array (counts, labels): thresholds and radii are not
        # integers - the result is the real-valued minimiser
        y = np.round(np.real(y) * 3).astype(np.int64)

    if case.get("npscalar") and np.ndim(alpha) == 0:
        alpha = np.float64(alpha)          # NumPy scalar instead of a Python float
    elif np.ndim(alpha) == 0 and case["pseed"] % 11 == 4:
        # an integer step size (Python int or NumPy integer)
        alpha = pick(rng, [2, 3, np.int64(2), 1])
    sig = "%s|%s|%s|%dd%s" % (cls, inp, y.dtype.char, len(shape), "|big" if case.get("big") else "")
    if case["pseed"] % 3 == 1 and y.dtype.kind != "i":
        # history: the object first rejects calls (wrong shape, wrong rank, no array), then
        # gets the valid one
        nev = len(STATE.events)
        for bad in (lambda: P(alpha, np.ones(tuple(shape) + (2,), y.dtype)),
                    lambda: P(alpha, np.ones([s_ + 1 for s_ in shape], y.dtype)),
                    lambda: P(alpha, None)):
            try:
                bad()
            except Exception:
                pass
        # (the rejected calls are not "well-formed inputs": only mutation events count)
        STATE.events[nev:] = [e_ for e_ in STATE.events[nev:] if e_["prop"] != "C11"]
    wit = dict(case)
    before = dict(STATE.count)
    y0 = y.copy()
    try:
        x = P(alpha, y)
    except Exception as e:
        inn = e
        while inn.__cause__ is not None:
            inn = inn.__cause__
        if prox_mon.in_chain(e, "_vf_unresolvable"):
            return inconclusive("L1Proj radius below one ulp of the data's l1 norm (%s): the "
                                "problem is not resolvable in this precision" % y.dtype,
                                sig="l1proj-unresolvable")
        return violated(sig, "%r raised %s: %s for a well-formed input" % (
            P, type(inn).__name__, str(inn)[:200]), wit, mech="raised:" + cls)
    if not np.array_equal(y, y0):
        return violated(sig, "input modified", wit, mech="mutated")
    x_kept = x.copy() if isinstance(x, np.ndarray) else None
    if info.get("ref") is not None and isinstance(x, np.ndarray):
        # nested transforms: compare with the composition written out from the definition
        xr_ = np.asarray(info["ref"](alpha, y0))
        sc_ = max(nrm(xr_), nrm(y0), 1e-300)
        if xr_.shape != x.shape or nrm(x - xr_) > (1e-9 if x.dtype != np.complex64 else 1e-4) * sc_:
            return violated(sig, "nested UnitaryTransform differs from A2^H A1^H prox(A1 A2 y) "
                            "written out from the definition: rel %.3g" % (
                                nrm(x - xr_) / sc_), wit, mech="nested-unitary")
    # idempotence of projections / feasible point is returned unchanged
    checks = 1
    if info["k"] in ("l2ball", "linf", "l1ball", "box", "psd") and isinstance(x, np.ndarray) \
            and x.shape == y.shape:
        try:
            x2 = P(alpha, x)
        except Exception as e:
            inn = e
            while inn.__cause__ is not None:
                inn = inn.__cause__
            if prox_mon.in_chain(e, "_vf_unresolvable"):
                return inconclusive("L1Proj radius below one ulp of the data's l1 norm",
                                    sig="l1proj-unresolvable")
            return violated(sig, "projection of a projected (feasible) point raised %s: %s" % (
                type(inn).__name__, str(inn)[:200]), wit, mech="raised:" + cls)
        checks += 1
        sc = max(1.0, float(np.max(np.abs(x))) if x.size else 1.0)
        itol = 1e-8 if y.dtype in (np.float64, np.complex128) else 1e-3
        # the first projection is computed from y (x = y - thresh(y) in several classes): its
        # round-off is relative to max|y|, not to the - possibly far smaller - result
        me_ = 2.3e-16 if y.dtype in (np.float64, np.complex128) else 1.2e-7
        floor_ = 64 * me_ * (float(np.max(np.abs(y0))) if y0.size else 0.0)
        if x2.shape != x.shape or float(np.max(np.abs(x2 - x)) if x.size else 0) > \
                itol * sc + floor_:
            return violated(sig, "projection is not idempotent: second application moves the "
                            "point by %.3g" % float(np.max(np.abs(x2 - x))), wit,
                            mech="idempotence:" + cls)
    # history: the same prox object called with another step size and input (certified by
    # the contract like every call), then the first call again: equal result - a prox object
    # must not remember anything from earlier calls
    if isinstance(x, np.ndarray) and x.shape == y.shape:
        try:
            if np.ndim(alpha) == 0:
                a2 = alpha * 3.7
            else:
                # the caller rescales its own step-size array in place (same object, other
                # values: anything derived from it must not be remembered by identity) and
                # restores it exactly afterwards (factor 2)
                alpha *= 0.5
                a2 = alpha
            y2 = (y0 * 0.5 + crandn(rng, shape, y0.dtype) * (0.1 + float(np.max(np.abs(y0)))
                                                              if y0.size else 1.0))
            if info["k"] == "psd":
                y2 = make_psd_input(rng, "herm", shape[0], np.iscomplexobj(y0)).astype(y0.dtype)
            if info["k"] in ("box", "real"):
                y2 = np.real(y2).astype(y0.dtype)
            P(a2, y2)
            if np.ndim(alpha) != 0:
                alpha *= 2.0
            x3 = P(alpha, y0)
        except Exception as e:
            inn = e
            while inn.__cause__ is not None:
                inn = inn.__cause__
            if prox_mon.in_chain(e, "_vf_unresolvable"):
                return inconclusive("L1Proj radius below one ulp of the data's l1 norm",
                                    sig="l1proj-unresolvable")
            return violated(sig, "second/third call on the same prox object raised %s: %s" % (
                type(inn).__name__, str(inn)[:200]), wit, mech="raised:" + cls)
        checks += 2
        if x_kept is not None and not np.array_equal(x, x_kept):
            return violated(sig, "the array returned by the first call was overwritten by a "
                            "later call on the same prox object (results share storage)", wit,
                            mech="history-alias:" + cls)
        if x3.shape != x.shape or not np.array_equal(x3, x):
            return violated(sig, "the same prox object gives a different result for the same "
                            "(alpha, input) after an intervening call with other arguments "
                            "(max diff %.3g)" % float(np.max(np.abs(x3 - x))), wit,
                            mech="history:" + cls)
    # the caller re-assigns a public parameter of the live prox object (a new weight, radius or
    # bound for the next outer iteration) and calls again: the contract certifies the result
    # against the object's attributes as they are now - nothing derived from the old values
    # may have been kept
    if case["pseed"] % 4 == 2 and isinstance(x, np.ndarray) and y.dtype.kind != "i":
        changed_ = []
        for attr in ("lamda", "epsilon", "upper", "lower"):
            v_ = getattr(P, attr, None)
            if isinstance(v_, (int, float, np.floating)) or (
                    isinstance(v_, np.ndarray) and v_.dtype.kind == "f"):
                new_ = v_ * 0.5 if attr != "lower" else v_ - 0.25 * abs(v_)
                try:
                    setattr(P, attr, new_)
                    changed_.append(attr)
                except Exception:
                    pass
        if changed_:
            try:
                P(alpha, y0)
                checks += 1
            except Exception as e:
                if not prox_mon.in_chain(e, "_vf_unresolvable"):
                    inn = e
                    while inn.__cause__ is not None:
                        inn = inn.__cause__
                    return violated(sig, "call after re-assigning %s on the live prox object "
                                    "raised %s: %s" % (changed_, type(inn).__name__,
                                                       str(inn)[:150]), wit,
                                    mech="reassign-raised:" + cls)
            sig += "|reassigned"
    # the same array object as input and as a parameter of the prox (its bias / centre / bound):
    # certified by the contract like every call; the parameter must come back unchanged
    for attr in ("y", "bias", "lower", "upper"):
        par = getattr(P, attr, None)
        if isinstance(par, np.ndarray) and list(par.shape) == list(shape) and \
                par.dtype == y0.dtype and case["pseed"] % 4 == 2:
            keep_ = par.copy()
            try:
                P(alpha, par)
            except Exception as e:
                if prox_mon.in_chain(e, "_vf_unresolvable"):
                    break
                return violated(sig, "prox applied to its own parameter array %r raised %s" % (
                    attr, type(e).__name__), wit, mech="raised:" + cls)
            checks += 1
            if not np.array_equal(par, keep_):
                return violated(sig, "prox applied to its own parameter array %r modified it"
                                % attr, wit, mech="param-as-input:" + cls)
            break
    # certificate branch observed for this call (for distinctness)
    br = [k[11:] for k in STATE.count if k.startswith("proxbranch:")
          and STATE.count[k] > before.get(k, 0)]
    sig += "|" + ",".join(sorted(br))[:80]
    evaluated = STATE.count["Prox.__call__:certified"] - before.get(
        "Prox.__call__:certified", 0)
    skipped = STATE.count["Prox.__call__:skipped"] - before.get("Prox.__call__:skipped", 0)
    if evaluated == 0 and not any(e["prop"] == "C11" for e in STATE.events):
        return inconclusive("certificate skipped (%d) for %s" % (skipped, sig), sig="skipped")
    nontrivial = bool(np.any(y != 0)) or inp in ("boundary", "zeros")
    return held(sig, {"alpha": alpha if np.ndim(alpha) == 0 else "array"}, checks, nontrivial)
