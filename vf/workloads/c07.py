"""C07 - interpolate/gridding implement the documented kernel sums.

Deciding monitor: reference-model comparison with a pure-Python triple loop written from
the docstring (vf.oracles.interp) for sigpy.interpolate / sigpy.gridding and the Linop
wrappers; plus exact transposition <interp x, y> = <x, gridding y> with identical
parameters; numba bounds-check sanitizer (NUMBA_BOUNDSCHECK=1) on in both tiers.
Tolerance per output element: 1e-12 * sum|w||x| for splines (same float64 arithmetic),
2e-6 * sum|w||x| for Kaiser-Bessel (accuracy of the Abramowitz-Stegun polynomial I0 that
sigpy documents using, ~2e-7 relative); transposition 1e-12.
"""
import numpy as np

from vf import lops
from vf.common import structured, Plan, crandn, held, violated, inconclusive, rng_for, nrm, inner, pick
from vf.oracles import interp as O

SPEC = {
    "deciding_monitors": ["fn:interpolate", "fn:gridding", "in:layout:F", "in:layout:strided", "in:complex64"],
    "rule": ("cases = (grid shape 1-3 dims incl. length-1 axes, batch shape, point set class "
             "[inside/outside/ceil-floor ties/integer/duplicates], kernel x param scalar or "
             "per-axis, width scalar or per-axis incl. fractional, real/complex data, "
             "function or Linop); distinct = those structural choices; non-trivial = at "
             "least one point with >= 2 contributing grid samples"),
    "boundscheck": {"quick": True, "thorough": True},
    "case_timeout": 240.0,
    "assumptions": ["Kaiser-Bessel weights compared at 2e-6 relative: the library documents a "
                    "polynomial approximation of I0"],
}


def plan(tier, seed):
    P = Plan(7, seed)
    quick = tier == "quick"
    n = 360 if quick else 6000
    rng = P.rng("kernel")
    for i in range(n):
        nd = int(pick(rng, [1, 1, 2, 2, 3]))
        lim = [9, 6, 4][nd - 1] if quick else [14, 8, 5][nd - 1]
        grid = [int(rng.integers(1, lim + 1)) for _ in range(nd)]
        batch = pick(rng, [[], [], [2], [1, 3], [2, 3]])
        pts = pick(rng, [[5], [7], [2, 3], [1]])
        if i % 8 == 7:
            # size-dependent regime: long axes, more than three batch entries, many points
            grid = [int(pick(rng, [[16, 17, 31, 32, 33, 40], [12, 16, 17], [7, 8, 9]][nd - 1]))
                    for _ in range(nd)]
            batch = pick(rng, [[], [5], [4, 2]])
            pts = pick(rng, [[33], [4, 9]])
        kernel, param, width = lops._kernel_params(rng, nd)
        P.add("kernel", grid=grid, batch=batch, pts=pts, nd=nd,
              ccls=pick(rng, ["inside", "outside", "ties", "integer", "dup"]),
              kernel=kernel, param=param, width=width,
              dt=pick(rng, ["complex128", "complex128", "float64", "complex64", "int64",
                            "int32"]),
              via=pick(rng, ["func", "func", "linop"]), cseed=int(rng.integers(1 << 30)),
              layout=pick(rng, ["C", "C", "C", "F", "strided"]),
              arrparams=bool(rng.random() < 0.3))
        if i % 12 == 9 and nd >= 2:
            # a very wide kernel along the last axis (65 - 80 samples: a long 1-D filter applied
            # through the 2-D / 3-D kernels)
            c_ = P.cases[-1]
            c_["grid"] = [int(rng.integers(2, 5)) for _ in range(nd - 1)] + [
                int(rng.integers(70, 100))]
            c_["width"] = [float(pick(rng, [1, 1.5, 2])) for _ in range(nd - 1)] + [
                float(rng.integers(65, 81))]
            c_["param"] = ([1] * nd if c_["kernel"] == "spline" else
                           [float(np.round(rng.uniform(1, 6), 2)) for _ in range(nd)])
            c_["pts"] = [4]
            c_["batch"] = []
    # more than 2**20 coordinates in one call (a long non-Cartesian readout train), decided at
    # sampled points and through sums computed with numpy.bincount
    for i in range(2 if quick else 8):
        P.add("many-points", npts=int(pick(rng, [(1 << 20) + 5, (1 << 21) + 3, 1200007])),
              n=int(pick(rng, [48, 64, 90])), cplx=bool(rng.random() < 0.5),
              cseed=int(rng.integers(1 << 30)), timeout=900)
    return P.cases


def run_many(case):
    """Linear interpolation (spline order 1, width 2) of a 1-D grid at more than 2**20
    coordinates and its transpose: y_j = (1-f) x[i] + f x[i+1] with i = floor(c_j), wrapped."""
    import sigpy as sp
    rng = np.random.default_rng(case["cseed"])
    n, M = case["n"], case["npts"]
    dt = np.complex128 if case["cplx"] else np.float64
    x = crandn(rng, [n], dt)
    c = rng.uniform(-1.5 * n, 1.5 * n, M)
    c = np.where(np.abs(c - np.round(c)) < 1e-9, c + 0.25, c)        # no exact ties
    coord = c.reshape(-1, 1)
    sig = "many-points|%d|%s" % (M, "c" if case["cplx"] else "r")
    wit = dict(case)
    i0 = np.floor(c).astype(np.int64)
    f = c - i0
    ref_i = (1 - f) * x[i0 % n] + f * x[(i0 + 1) % n]
    got_i = sp.interpolate(x, coord, kernel="spline", width=2, param=1)
    if got_i.shape != (M,):
        return violated(sig, "interpolate output shape %s for %d points" % (got_i.shape, M), wit,
                        mech="shape")
    err = np.abs(got_i - ref_i)
    k = int(np.argmax(err))
    if not err[k] <= 1e-12 * (1 + np.max(np.abs(x))):
        return violated(sig, "interpolate differs from the documented kernel sum at point %d of "
                        "%d: |err| = %.3g (%d points differ)" % (
                            k, M, float(err[k]), int(np.sum(err > 1e-12 * (1 + np.max(np.abs(x)))))),
                        wit, mech="value:interpolate")
    y = crandn(rng, [M], dt)
    got_g = sp.gridding(y, coord, [n], kernel="spline", width=2, param=1)
    w0, w1 = (1 - f) * y, f * y
    if case["cplx"]:
        ref_g = (np.bincount(i0 % n, w0.real, n) + np.bincount((i0 + 1) % n, w1.real, n)) + 1j * (
            np.bincount(i0 % n, w0.imag, n) + np.bincount((i0 + 1) % n, w1.imag, n))
    else:
        ref_g = np.bincount(i0 % n, w0, n) + np.bincount((i0 + 1) % n, w1, n)
    ab = np.bincount(i0 % n, np.abs(w0), n) + np.bincount((i0 + 1) % n, np.abs(w1), n)
    eg = np.abs(got_g - ref_g)
    kk = int(np.argmax(eg / (ab + 1e-300)))
    if not np.all(eg <= 1e-9 * ab + 1e-300):
        return violated(sig, "gridding differs from the transposed kernel sum at grid point %d: "
                        "|err| = %.3g where sum|w||y| = %.3g" % (kk, float(eg[kk]), float(ab[kk])),
                        wit, mech="value:gridding")
    return held(sig, {"points": M, "interp_err": float(err[k]),
                      "grid_err": float(np.max(eg / (ab + 1e-300)))}, 2, True)


def run_case(case):
    if case["gen"] == "many-points":
        return run_many(case)
    import sigpy as sp
    rng = rng_for(case)
    grid, batch, pts, nd = case["grid"], case["batch"], case["pts"], case["nd"]
    kernel, param, width = case["kernel"], case["param"], case["width"]
    dt = np.dtype(case["dt"])
    coord = lops.make_coord(case["cseed"], pts, grid, case["ccls"])
    with structured((sum(case["rs"]) // 3) % 10 if sum(case["rs"]) % 2 else 0):
        x = crandn(rng, batch + grid, dt if dt.kind != "i" else np.float64)
        y = crandn(rng, batch + pts, dt if dt.kind != "i" else np.float64)
    mag = [1, 1, 1, 1e-10, 1e8][sum(case["rs"]) % 5]      # both functions are homogeneous
    if dt.kind == "i":
        # integer samples (counts, label images, raw ADC values): the kernel weights are not
        # integers - the results are the real-valued kernel sums
        x, y = np.round(x * 7).astype(dt), np.round(y * 7).astype(dt)
        mag = 1
    if mag != 1:
        x, y = x * dt.type(mag), y * dt.type(mag)
    layout = case.get("layout", "C")
    if layout == "F":
        x, y = np.asfortranarray(x), np.asfortranarray(y)
    elif layout == "strided":
        def strided(a):
            big = np.zeros(tuple(2 * n for n in a.shape), a.dtype)
            sl = tuple(slice(None, None, 2) for _ in a.shape)
            big[sl] = a
            return big[sl]
        x, y = strided(x), strided(y)
    if case.get("arrparams"):
        # width / param handed over as NumPy arrays (and re-used for both calls)
        width = np.array([width] * nd if np.isscalar(width) else width, dtype=np.float64)
        param = np.array([param] * nd if np.isscalar(param) else param, dtype=np.float64)
    w0 = np.array(width, dtype=np.float64, copy=True)
    p0 = np.array(param, dtype=np.float64, copy=True)
    sig = "|".join(map(str, [
        nd, "".join("1" if g == 1 else "n" for g in grid), len(batch), len(pts), case["ccls"],
        kernel, "pa" if not np.isscalar(param) else param if kernel == "spline" else "b",
        "wa" if not np.isscalar(width) else width, dt.name, case["via"],
        case.get("layout", "C"), "ap" if case.get("arrparams") else "sp"]))
    wit = {k: case[k] for k in ("grid", "batch", "pts", "ccls", "kernel", "param", "width",
                                "dt", "via", "cseed")}
    cfloat = coord
    if case["ccls"] == "integer" and np.array_equal(coord, np.round(coord)) and \
            sum(case["rs"]) % 2 == 0:
        # on-grid points handed over with an integer dtype (arange / mgrid): same points, same
        # kernel sum - in particular the (fractional) width and parameter still apply
        coord = coord.astype(np.int64)
        sig += "|intcoord"
    clay = (sum(case["rs"]) // 7) % 4
    if clay and len(pts) >= 1:
        # the coordinate array in another memory layout: Fortran order, an every-other-element
        # view of a larger array, a reversed view (a trajectory sliced out of a larger one)
        if clay == 1:
            coord = np.asfortranarray(coord)
        elif clay == 2:
            big_ = np.zeros(tuple(2 * n for n in coord.shape), coord.dtype)
            sl_ = tuple(slice(None, None, 2) for _ in coord.shape)
            big_[sl_] = coord
            coord = big_[sl_]
        else:
            rv_ = (slice(None, None, -1),) * (coord.ndim - 1) + (slice(None),)
            coord = np.ascontiguousarray(coord[rv_])[rv_]
        sig += "|coord-layout"
    x0, y0, c0 = x.copy(), y.copy(), coord.copy()
    try:
        if case["via"] == "func" and sum(case["rs"]) % 4 == 1:
            # documented signatures (input, coord[, shape], kernel, width, param), positional
            got_i = sp.interpolate(x, coord, kernel, width, param)
            got_g = sp.gridding(y, coord, batch + grid, kernel, width, param)
        elif case["via"] == "func":
            got_i = sp.interpolate(x, coord, kernel=kernel, width=width, param=param)
            got_g = sp.gridding(y, coord, batch + grid, kernel=kernel, width=width, param=param)
        else:
            A = sp.linop.Interpolate(batch + grid, coord, kernel=kernel, width=width,
                                     param=param)
            got_i = A(x)
            got_g = A.H(y)
    except Exception as e:
        inn = e
        while inn.__cause__ is not None:
            inn = inn.__cause__
        mech = "bounds" if isinstance(inn, IndexError) else "raised:" + type(inn).__name__
        return violated(sig, "interpolate/gridding raised %s: %s (numba bounds checking is "
                        "on)" % (type(inn).__name__, str(inn)[:200]), wit, mech=mech)
    if not (np.array_equal(x, x0) and np.array_equal(y, y0) and np.array_equal(coord, c0)):
        return violated(sig, "an argument was modified", wit, mech="mutated")
    if case["via"] == "func" and sum(case["rs"]) % 3 == 0:
        # history with rejected calls in between: an unknown kernel name, coordinates with too
        # many columns and a grid operand of the wrong rank - each with *other* width / param
        # values - then the first call again, which must give the first result
        wbad = (np.asarray(width, float) + 1.7).tolist() if np.ndim(width) else width + 1.7
        pbad = (np.asarray(param, float) * 0.5).tolist() if np.ndim(param) else param * 0.5
        bad_i = (lambda: sp.interpolate(x, coord, kernel="linear", width=wbad, param=pbad),
                 lambda: sp.interpolate(x, np.concatenate([coord] * 3, axis=-1)[..., :4],
                                        kernel=kernel, width=wbad, param=pbad))
        bad_g = (lambda: sp.gridding(y, coord, batch + grid, kernel="linear", width=wbad,
                                     param=pbad),
                 lambda: sp.gridding(y[..., :-1] if y.shape[-1] > 1 else y[..., None], coord,
                                     batch + grid, kernel=kernel, width=wbad, param=pbad))
        try:
            # per function: valid call, rejected call(s) of the same function, valid call again
            # (nothing else in between), for each of the rejected variants
            again_i, again_g = got_i, got_g
            for bad in bad_i:
                sp.interpolate(x, coord, kernel=kernel, width=width, param=param)
                try:
                    bad()
                except Exception:
                    pass
                r_ = sp.interpolate(x, coord, kernel=kernel, width=width, param=param)
                if not np.array_equal(r_, got_i, equal_nan=True):
                    again_i = r_
            for bad in bad_g:
                sp.gridding(y, coord, batch + grid, kernel=kernel, width=width, param=param)
                try:
                    bad()
                except Exception:
                    pass
                r_ = sp.gridding(y, coord, batch + grid, kernel=kernel, width=width,
                                 param=param)
                if not np.array_equal(r_, got_g, equal_nan=True):
                    again_g = r_
        except Exception as e:
            return violated(sig, "a valid call raised %s after rejected calls: %s" % (
                type(e).__name__, str(e)[:150]), wit, mech="history-after-failure")
        if not (np.array_equal(again_i, got_i, equal_nan=True)
                and np.array_equal(again_g, got_g, equal_nan=True)):
            return violated(sig, "the same call gives another result after rejected calls "
                            "(unknown kernel / wrong operand shapes with other width and "
                            "param) in between", wit, mech="history-after-failure")
        sig += "|after-rejected"
    if not (np.array_equal(np.asarray(width, float), w0)
            and np.array_equal(np.asarray(param, float), p0)):
        return violated(sig, "the width / param argument was modified by the call (width %s -> "
                        "%s)" % (w0, np.asarray(width)), wit, mech="mutated-params")
    width_l = w0.tolist() if w0.ndim else float(w0)
    param_l = p0.tolist() if p0.ndim else float(p0)
    ref_i, ab_i = O.interpolate(np.ascontiguousarray(x0).astype(
        np.complex128 if dt.kind == "c" else np.float64), cfloat, kernel, width_l, param_l)
    ref_g, ab_g = O.gridding(np.ascontiguousarray(y0).astype(
        np.complex128 if dt.kind == "c" else np.float64), cfloat, batch + grid, kernel, width_l,
        param_l)
    rel = 1e-12 if kernel == "spline" else 2e-6
    if dt == np.complex64:
        rel = max(rel, 2e-5)
    checks = 0
    obs = {}
    for name, got, ref, ab in (("interpolate", got_i, ref_i, ab_i),
                               ("gridding", got_g, ref_g, ab_g)):
        checks += 1
        if tuple(got.shape) != tuple(ref.shape):
            return violated(sig, "%s output shape %s, expected %s" % (name, got.shape,
                                                                      ref.shape), wit,
                            mech="shape")
        bound = rel * ab + 1e-300
        bound = bound + rel * 1e-3 * (np.max(ab) if ab.size else 0)
        err = np.abs(got - ref)
        ratio = float(np.max(err / bound)) if err.size else 0.0
        obs[name] = float(np.max(err / (ab + 1e-300 + 1e-3 * np.max(ab)))) if err.size else 0.0
        if not ratio <= 1.0:
            k = int(np.argmax(err / bound))
            return violated(sig, "%s differs from the documented kernel sum: |err| = %.3g at "
                            "flat index %d where sum|w||x| = %.3g (tol %.1g relative)" % (
                                name, float(err.ravel()[k]), k, float(ab.ravel()[k]), rel),
                            wit, mech="value:" + name, obs=obs)
    # exact transposition with identical parameters
    lhs = inner(got_i.astype(np.complex128), y0.astype(np.complex128))
    rhs = inner(x0.astype(np.complex128), got_g.astype(np.complex128))
    sc = float(np.sum(ab_i * np.abs(y0))) + 1e-300
    checks += 1
    t = 1e-12 if dt != np.complex64 else 2e-5
    obs["transpose"] = abs(lhs - rhs) / sc
    if not abs(lhs - rhs) <= t * sc:
        return violated(sig, "gridding is not the transpose of interpolate: <Ix,y> = %s, "
                        "<x,Gy> = %s" % (lhs, rhs), wit, mech="transpose", obs=obs)
    xc = np.ascontiguousarray(x0).astype(np.complex128 if dt.kind == "c" else np.float64)
    yc = np.ascontiguousarray(y0).astype(np.complex128 if dt.kind == "c" else np.float64)
    npts = int(np.prod(pts)) if pts else 1
    if sum(case["rs"]) % 3 == 1 and npts:
        # history: the caller updates the SAME coordinate array in place (next frame of a
        # moving trajectory) and calls again with the same object: the new positions count
        sh_ = np.array([int(rng.integers(-3, 4)) for _ in range(nd)]) if coord.dtype.kind == "i" \
            else np.round(rng.uniform(-1.5, 1.5, nd), 3)
        coord += sh_.astype(coord.dtype)
        cnew = np.array(coord, dtype=np.float64)
        try:
            if case["via"] == "func":
                g2i = sp.interpolate(x, coord, kernel=kernel, width=width, param=param)
                g2g = sp.gridding(y, coord, batch + grid, kernel=kernel, width=width,
                                  param=param)
            else:
                g2i, g2g = A(x), A.H(y)
        except Exception as e:
            return violated(sig, "call after an in-place update of the coordinate array raised "
                            "%s: %s" % (type(e).__name__, str(e)[:150]), wit,
                            mech="coord-update")
        r2i, a2i = O.interpolate(xc, cnew, kernel, width_l, param_l)
        r2g, a2g = O.gridding(yc, cnew, batch + grid, kernel, width_l, param_l)
        for name, got, ref, ab in (("interpolate", g2i, r2i, a2i), ("gridding", g2g, r2g, a2g)):
            checks += 1
            bound = rel * ab + 1e-300 + rel * 1e-3 * (np.max(ab) if ab.size else 0)
            err = np.abs(got - ref)
            if err.size and not float(np.max(err / bound)) <= 1.0:
                return violated(sig, "after the caller moved the coordinates in place (same "
                                "array object, shift %s) %s does not use the new positions: max "
                                "|err| %.3g" % (sh_.tolist(), name, float(np.max(err))),
                                dict(wit, shift=sh_.tolist()), mech="coord-update", obs=obs)
        coord[...] = c0                       # (exactly; subtracting the shift would round)
        sig += "|coord-update"
    if sum(case["rs"]) % 5 == 2 and npts and case["via"] == "func" and dt.kind != "i":
        # samples outside every kernel support have NO influence: poison them.  Likewise a
        # non-finite k-space sample spoils only the grid points inside its own support
        used = set()
        cf_ = cfloat.reshape(-1, nd)
        for c_ in cf_:
            used.update(i_ for i_, _ in O.taps(c_, grid, kernel, width_l, param_l))
        free = [i_ for i_ in np.ndindex(*grid) if i_ not in used]
        bad = [np.nan, np.inf, -np.inf][sum(case["rs"]) % 3]
        if free:
            xp_ = np.array(x0, copy=True)
            for i_ in free:
                xp_[(Ellipsis,) + i_] = bad
            gp = sp.interpolate(xp_, coord, kernel=kernel, width=width, param=param)
            checks += 1
            if not np.array_equal(gp, got_i, equal_nan=True):
                nbad = int(np.sum(~np.isfinite(gp) & np.isfinite(got_i)))
                return violated(sig, "interpolate: %d grid samples outside every kernel support "
                                "were set to %s and changed %d of the interpolated values" % (
                                    len(free), bad, nbad), wit, mech="outside-support:interpolate",
                                obs=obs)
            sig += "|poison-x"
        j0 = int(rng.integers(npts))
        mine = set(i_ for i_, _ in O.taps(cf_[j0], grid, kernel, width_l, param_l))
        others = [i_ for i_ in np.ndindex(*grid) if i_ not in mine]
        if others:
            yz = np.array(y0, copy=True).reshape(tuple(batch) + (npts,))
            yz[..., j0] = 0
            yp_ = yz.copy()
            yp_[..., j0] = bad
            gz = sp.gridding(yz.reshape(y0.shape), coord, batch + grid, kernel=kernel,
                             width=width, param=param)
            gp = sp.gridding(yp_.reshape(y0.shape), coord, batch + grid, kernel=kernel,
                             width=width, param=param)
            sel = tuple(np.array([i_[a] for i_ in others]) for a in range(nd))
            checks += 1
            if not np.array_equal(gp[(Ellipsis,) + sel], gz[(Ellipsis,) + sel], equal_nan=True):
                return violated(sig, "gridding: a %s sample changed grid points outside its own "
                                "kernel support" % bad, wit, mech="outside-support:gridding",
                                obs=obs)
            sig += "|poison-y"
    taps_per_pt = float(np.max(ab_i > 0)) if ab_i.size else 0
    nontrivial = any(len(O.taps(c, grid, kernel, width_l, param_l)) >= 2
                     for c in cfloat.reshape(-1, nd)[:5])
    return held(sig, obs, checks, nontrivial)
