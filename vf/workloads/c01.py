"""C01 - every linear operator's adjoint is its true adjoint.

Deciding monitor: inner-product identity <Ax,y> = <x,A^H y> evaluated on the real
operator and the real adjoint object for generated configurations of every
constructible operator class / MRI factory and random expression trees, on 3
complex Gaussian pairs and one sparse pair; for small operators additionally the
dense form M_{A.H} == M_A^H entry-wise (the whole quantifier over x, y for that
configuration); shapes of A.H swapped; A.H.H acts like A.

Tolerance: float64/complex128 arithmetic, operators with <= 400 unknowns and depth
<= 4: |<Ax,y> - <x,A^H y>| <= 1e-10 (||Ax|| ||y|| + ||x|| ||A^H y||); 2e-4 for
complex64 data and for real inputs (sigpy's fft casts real input to complex64).
"""
import numpy as np

from vf import lops
from vf.monitors import STATE, linop_mon
from vf.oracles.algebra import Spec
from vf.common import structured, pick, Plan, crandn, held, violated, inconclusive, rng_for, nrm, inner

SPEC = {
    "rule": ("cases = one operator description each: every leaf class of sigpy.linop / "
             "sigpy.mri.linop / sigpy.mri.rf.linop over its parameter grid, and random "
             "expression trees (Compose/Add/Sub/Neg/scalar*/Hstack/Vstack/Diag/Conj/.H/.N, "
             "depth <= 3 quick, <= 4 thorough); distinct = distinct structural signature "
             "(tree shape, leaf classes, structural parameters, data dtype; values excluded); "
             "non-trivial = contains a non-Identity leaf"),
    "boundscheck": {"quick": False, "thorough": True},
    "case_timeout": 180.0,
    "deciding_monitors": ["Linop.apply", "in:layout:F", "in:layout:strided", "in:complex64", "in:float64"],
    "assumptions": ["CPU/numpy backend only; ToDevice, AllReduce*, Sense(comm=...) and "
                    "Sense(transp_nufft=True) are not exercised",
                    "operators with at most ~400 inputs/outputs, trees of depth <= 4"],
}


def plan(tier, seed):
    P = Plan(1, seed)
    per_kind = 24 if tier == "quick" else 400
    ntrees = 500 if tier == "quick" else 14000
    maxn = 6 if tier == "quick" else 9
    for kind in lops.LEAF_KINDS:
        rng = P.rng("leaf:" + kind)
        for i in range(per_kind):
            d = lops.gen_leaf(rng, kind, None, maxn)
            if d is None:
                continue
            P.add("leaf:" + kind, desc=d, dt=_dtype(rng))
    # size- and magnitude-dependent regime: lengths past 16 / 32, more than three batch /
    # coil / channel entries, probes scaled by 1e-8 / 1e+8 (the identity is homogeneous)
    for kind in lops.LEAF_KINDS:
        rng = P.rng("big:" + kind)
        for i in range(8 if tier == "quick" else 80):
            d = lops.gen_leaf(rng, kind, None, 34)
            if d is None:
                continue
            P.add("big:" + kind, desc=d, dt=_dtype(rng), mag=pick(rng, [1, 1, 1e-10, 1e8]))
    for kind in lops.ARRAY_KINDS:
        # parameter arrays with structure (unit modulus, +-1 / +-i, ones, constant, one-hot)
        rng = P.rng("struct:" + kind)
        for i in range(8 if tier == "quick" else 100):
            d = lops.gen_struct_leaf(rng, kind, maxn)
            if d is not None:
                P.add("struct:" + kind, desc=d, dt=_dtype(rng))
    rng = P.rng("nested-stack")
    for i in range(120 if tier == "quick" else 2000):
        P.add("nested-stack", desc=lops.gen_nested_stack(rng), dt=_dtype(rng), depth=2)
    rng = P.rng("tree")
    for i in range(ntrees):
        depth = int(rng.integers(1, 4 if tier == "quick" else 5))
        d = lops.gen_tree(rng, depth, None, 5 if tier == "quick" else 6)
        P.add("tree", desc=d, dt=_dtype(rng), depth=depth)
    return P.cases


def _dtype(rng):
    r = rng.random()
    return "complex128" if r < 0.8 else "complex64" if r < 0.9 else "float64"


def build_checked(desc, prime=False):
    """Build; returns (A, None) or (None, result-dict)."""
    try:
        if prime:
            # construction history: sibling operators (axes in another order / spelling) first
            lops.prime_siblings(desc)
        A = lops.build(desc)
    except Exception as e:
        return None, inconclusive("constructor raised %s: %s [%s]" % (
            type(e).__name__, str(e)[:60], lops.signature(desc)[:200]), sig="ctor-raised")
    return A, None


def innermost(e):
    while e.__cause__ is not None:
        e = e.__cause__
    return e


def run_case(case):
    desc = case["desc"]
    dt = np.dtype(case["dt"])
    rng = rng_for(case)
    sig = lops.signature(desc) + "|" + dt.name
    leafs = lops.leaf_ops(desc)
    nontrivial = any(l != "Identity" for l in leafs)
    A, bad = build_checked(desc, prime=bool(sum(case["rs"]) % 2))
    if A is None:
        return bad
    if sum(case["rs"]) % 6 == 4:
        # the operator went through a serialisation round trip (pickle to a worker process, a
        # deep copy kept as a checkpoint) between construction and use: what comes back is
        # the same operator with the same adjoint
        import copy
        import pickle
        try:
            A = pickle.loads(pickle.dumps(A)) if sum(case["rs"]) % 12 == 4 else copy.deepcopy(A)
            sig += "|roundtrip"
        except Exception:
            pass                      # (not every captured callable can be pickled)
    wit = {"desc": desc, "dtype": dt.name, "repr": repr(A)}
    tol = 1e-10 if dt == np.complex128 else 2e-4
    checks = 0
    obs = {}
    try:
        AH = A.H
        if "|roundtrip" in sig:
            # ... and so did the adjoint object (e.g. the one inside a pickled A.H * A)
            import copy
            import pickle
            try:
                AH = pickle.loads(pickle.dumps(AH)) if sum(case["rs"]) % 12 == 4 else \
                    copy.deepcopy(AH)
            except Exception:
                pass
        checks += 1
        if list(AH.ishape) != list(A.oshape) or list(AH.oshape) != list(A.ishape):
            return violated(sig, "adjoint shapes not swapped: A %s<-%s, A.H %s<-%s" % (
                A.oshape, A.ishape, AH.oshape, AH.ishape), wit, mech="adjoint-shape")
        ish, osh = tuple(A.ishape), tuple(A.oshape)
        worst = 0.0
        spec = Spec(lops.build, lops.scalar_value) if "parts" in desc or "A" in desc else None
        for k in range(5):
            if k == 4:
                # a real-dtype x against a complex y (the adjoint identity holds for every
                # real vector too; conjugations skipped "because the data are real" show here)
                if dt.kind != "c":
                    break
                x = crandn(rng, ish, np.float64 if dt == np.complex128 else np.float32)
                y = crandn(rng, osh, dt)
            elif k < 3:
                # third pair: data with structure Gaussian draws never have (constant,
                # alternating, one-hot, exact ties, powers of two, signed zeros, denormals)
                with structured(sum(case["rs"]) % 10 if k == 2 else 0):
                    x = crandn(rng, ish, dt)
                    y = crandn(rng, osh, dt if dt.kind == "c" else np.float64)
                if k == 1:          # memory-layout variant: Fortran-ordered probes
                    x, y = np.asfortranarray(x), np.asfortranarray(y)
            else:                         # sparse pair: isolates index-map errors
                x = np.zeros(ish, dt)
                y = np.zeros(osh, dt if dt.kind == "c" else np.float64)
                if x.size:
                    x.reshape(-1)[int(rng.integers(x.size))] = 1
                if y.size:
                    y.reshape(-1)[int(rng.integers(y.size))] = 1 if dt.kind != "c" else 1j
            if case.get("mag", 1) != 1:
                # (np.asarray: arithmetic on 0-d arrays returns scalars, which an operator
                # would take for a scaling)
                x, y = np.asarray(x * x.dtype.type(case["mag"])), \
                    np.asarray(y * y.dtype.type(case["mag"]))
            STATE.peak = 0.0
            Ax = A(x)
            AHy = AH(y)
            gain = max(1.0, STATE.peak / max(min(nrm(x), nrm(y)), 1e-300))
            lhs = inner(Ax, y)
            rhs = inner(x, AHy)
            # + ||x|| ||y||: floor for operators whose true action is (near) zero, where
            # both sides are rounding noise of intermediate O(1) quantities
            scale = nrm(Ax) * nrm(y) + nrm(x) * nrm(AHy) + 1e-3 * gain * nrm(x) * nrm(y)
            if spec is not None and k == 0:
                # modelled round-off level of this tree (see vf.oracles.algebra.Spec.noise)
                nf = spec.noise(desc, x.astype(np.complex128))[1]
                na = spec.noise(desc, y.astype(np.complex128), adjoint=True)[1]
                rnd = 1e13 * (nf / max(nrm(x), 1e-300) + na / max(nrm(y), 1e-300))
            if spec is not None:
                scale += rnd * nrm(x) * nrm(y)
            err = abs(lhs - rhs)
            checks += 1
            rel = err / scale if scale > 0 else err
            if not np.isfinite(rel) and dt != np.complex128 and np.all(np.isfinite(x)) \
                    and np.all(np.isfinite(y)):
                # float32 overflow (e.g. un-normalised Kaiser-Bessel weights ~ I0(beta)^ndim
                # applied four times in N(N(.))): decide the same case in double precision;
                # if it holds there, the single-precision run says nothing either way
                r64 = run_case(dict(case, dt="complex128"))
                if r64["verdict"] == "held":
                    return inconclusive("single-precision overflow (finite and adjoint in "
                                        "double precision)", sig="c64-overflow")
                return r64
            worst = max(worst, rel if k < 4 else 0.0)
            # (sigpy's fft / nufft compute real-dtype input in complex64: single-precision
            # tolerance for the real-x pair)
            if not rel <= (tol if k < 4 else max(tol, 2e-4)):
                return violated(sig, "<Ax,y> = %s but <x,A^H y> = %s (relative gap %.3g, tol "
                                "%.1g) on %s pair" % (lhs, rhs, rel, tol,
                                                      "sparse" if k == 3 else
                                                      "real-x / complex-y" if k == 4 else
                                                      "Gaussian"),
                                wit, mech="inner-product", obs={"rel": rel})
        obs["adjoint_gap"] = worst
        # A.H.H acts like A
        x = crandn(rng, ish, dt)
        Ax = A(x)
        AHHx = AH.H(x)
        checks += 1
        e = nrm(np.asarray(AHHx) - np.asarray(Ax)) / max(nrm(Ax), 1e-300) if nrm(Ax) > 0 \
            else nrm(AHHx)
        obs["HH"] = e
        if np.shape(AHHx) != np.shape(Ax) or not e <= tol * 10:
            return violated(sig, "A.H.H differs from A: rel %.3g" % e, wit, mech="HH", obs=obs)
        # history: the caller overwrites, in place, the arrays the operator was built from
        # (new coil maps / filter / multiplier values in the same buffers) after A.H has been
        # taken: the pair must stay an adjoint pair - neither side may hold a private snapshot
        # (not after a serialisation round trip of A.H: a pickled copy has arrays of its own)
        if sum(case["rs"]) % 4 == 0 and "|roundtrip" not in sig:
            caps = [(n_, v_) for n_, v_ in linop_mon.captured_tree(A).values()
                    if v_.flags.writeable and v_.dtype.kind in "fc" and v_.size
                    and not n_.endswith(("coord", ".psf"))]
            if caps:
                for n_, v_ in caps:
                    v_ *= v_.dtype.type(0.8 + 0.6j) if v_.dtype.kind == "c" else v_.dtype.type(-1.5)
                x = crandn(rng, ish, dt)
                y = crandn(rng, osh, dt if dt.kind == "c" else np.float64)
                STATE.peak = 0.0
                Ax, AHy = A(x), AH(y)
                gain = max(1.0, STATE.peak / max(min(nrm(x), nrm(y)), 1e-300))
                lhs, rhs = inner(Ax, y), inner(x, AHy)
                scale = nrm(Ax) * nrm(y) + nrm(x) * nrm(AHy) + 1e-3 * gain * nrm(x) * nrm(y)
                if spec is not None:
                    scale += rnd * nrm(x) * nrm(y) * 2
                rel = abs(lhs - rhs) / scale if scale > 0 else abs(lhs - rhs)
                checks += 1
                obs["adjoint_gap_after_param_update"] = rel
                sig += "|param-update"
                if not rel <= tol:
                    return violated(sig, "after the arrays the operator was built from (%s) were "
                                    "overwritten in place, A and the A.H taken earlier are no "
                                    "longer adjoint: relative gap %.3g" % (
                                        ", ".join(n_ for n_, _ in caps)[:120], rel), wit,
                                    mech="param-update", obs={"rel": rel})
                return held(sig, obs, checks, nontrivial)
        # augmented assignment: `B = A; B += A` builds a new sum - the operator B was bound to
        # before (A, with the A.H taken above) stays what it was, and both are adjoint pairs
        if sum(case["rs"]) % 4 == 2:
            try:
                B = A
                B += A
            except Exception:
                B = None
            if B is not None:
                x = crandn(rng, ish, dt)
                y = crandn(rng, osh, dt if dt.kind == "c" else np.float64)
                for nm_, Op, OpH, f_ in (("A (after B = A; B += A)", A, AH, 1.0),
                                         ("A + A built with +=", B, B.H, 2.0)):
                    STATE.peak = 0.0
                    Ox, OHy = Op(x), OpH(y)
                    lhs, rhs = inner(Ox, y), inner(x, OHy)
                    sc_ = nrm(Ox) * nrm(y) + nrm(x) * nrm(OHy) + 1e-3 * max(
                        1.0, STATE.peak / max(min(nrm(x), nrm(y)), 1e-300)) * nrm(x) * nrm(y)
                    if spec is not None:
                        sc_ += rnd * nrm(x) * nrm(y) * 2
                    checks += 1
                    if not abs(lhs - rhs) <= tol * sc_:
                        return violated(sig, "%s is not an adjoint pair any more: <Ox,y> = %s, "
                                        "<x,O^H y> = %s" % (nm_, lhs, rhs), wit,
                                        mech="iadd-history")
                ax_ = np.asarray(A(x))
                if nrm(np.asarray(B(x)) - 2 * ax_) > max(tol, 1e-9) * (
                        2 * nrm(ax_) + 1e-3 * max(nrm(x), STATE.peak)) + (
                        rnd * nrm(x) * 4 if spec is not None else 0):
                    return violated(sig, "B = A; B += A does not act as 2 A (or changed A)", wit,
                                    mech="iadd-history")
        # dense form
        ni, no = int(np.prod(ish)), int(np.prod(osh))
        if dt == np.complex128 and ni <= 48 and no <= 48:
            M = lops.dense(A)
            MH = lops.dense(AH)
            checks += 1
            d = float(np.max(np.abs(MH - M.conj().T))) if M.size else 0.0
            sc = max(1.0, float(np.max(np.abs(M))) if M.size else 1.0)
            obs["dense"] = d / sc
            sig += "|dense"
            if not d <= 1e-10 * sc * max(ni, no):
                return violated(sig, "dense matrix of A.H differs from conj-transpose of the "
                                "dense matrix of A: max entry gap %.3g" % d, wit,
                                mech="dense", obs=obs)
    except Exception as e:
        inn = innermost(e)
        if dt.kind != "c" and "Cannot cast ufunc" in str(inn):
            # real data meeting complex parameters is rejected loudly by numpy's casting
            # rule in accumulate-in-place code paths: not an adjointness question
            return inconclusive("real input rejected by dtype rule: %s" % str(inn)[:120],
                                sig="real-rejected")
        return violated(sig, "applying the operator or its adjoint raised %s: %s" % (
            type(inn).__name__, str(inn)[:300]), wit,
            mech="raised:" + type(inn).__name__)
    return held(sig, obs, checks, nontrivial)
