"""C06 - nufft approximates the non-uniform DFT to its stated accuracy.

Deciding monitor: reference-model comparison with the explicit NDFT matrix
(vf.oracles.ndft).  Measured quantity (precise reading of "relative l2 error"):
    err = ||y - yhat||_2 / max(||yhat||_2, sqrt(M/N) ||x||_2),   M >= 16 points,
the guard term being the expected norm of yhat for the given ||x|| (it only ever makes
the measured error smaller than the literal ratio, so an alarm implies a literal
violation; the literal ratio alone is meaningless when the coordinates sample nulls of
the exact transform).  Thresholds are the statement's: 3 % at (1.25, 4), 0.3 % at
oversamp 2 (width 4).  Other (oversamp, width) pairs in [1.25, 2] x [3, 6] have no
absolute threshold in the statement and are checked for exact adjointness,
periodicity and monotone improvement (error at (2, 6) <= error at (1.25, 4)).
Further oracles: nufft(x, k) = nufft(x, k + N e_d) (1e-9); <nufft x, y> = <x, nufft_adjoint y>
(1e-10); nufft_adjoint(nufft x) vs E^H E x within 2*eps; integer coordinates vs the centred
DFT sample; batch axes == looping.
"""
import numpy as np

from vf import lops
from vf.common import Plan, crandn, held, violated, inconclusive, rng_for, nrm, inner, pick
from vf.oracles import ndft as O
from vf.oracles import dft as ODFT

SPEC = {
    "deciding_monitors": ["fn:nufft", "fn:nufft_adjoint", "in:layout:F", "in:layout:strided", "in:complex64"],
    "rule": ("cases = (transform dims 1-3, grid extents odd/even, batch shape, coordinate class "
             "[random/on-grid/half-integer/clustered/out-of-range], image class [Gaussian/"
             "delta incl. edge and corner voxels/constant/single exponential], (oversamp, "
             "width)); plus directed worst-case probes (corner impulse, coordinates on a fine "
             "offset lattice); distinct = those classes; non-trivial = grid with >= 2 voxels"),
    "boundscheck": {"quick": False, "thorough": True},
    "case_timeout": 240.0,
    "assumptions": ["error metric with guarded denominator (see module docstring)",
                    "thresholds only for the (oversamp, width) pairs the statement names"],
}

THRESH = {(1.25, 4): 0.03, (2, 4): 0.003, (2.0, 4): 0.003}
# committed constants of the known finding C06/kb-kernel-worstcase-multidim: worst 1-D
# pointwise error of the default kernels (measured scan, 15 % head-room)
E1 = {1.25: 0.0185 * 1.15, 2: 0.0015 * 1.15, 2.0: 0.0015 * 1.15}


def sep_bound(oversamp, nd):
    return 1 - (1 - E1[oversamp]) ** nd


def plan(tier, seed):
    P = Plan(6, seed)
    quick = tier == "quick"
    rng = P.rng("acc")
    for i in range(260 if quick else 4000):
        nd = int(pick(rng, [1, 1, 2, 2, 3]))
        lim = ([48, 16, 8] if not quick else [32, 12, 6])[nd - 1]
        grid = [int(rng.integers(1, lim + 1)) for _ in range(nd)]
        if np.prod(grid) < 2:
            grid[0] = 2
        M = int(rng.integers(16, 48))
        ov, w = pick(rng, [(1.25, 4), (1.25, 4), (2, 4), (2, 4), (1.5, 4), (1.25, 6), (2, 6),
                           (1.5, 3), (1.75, 5), (1.3, 4.5), (1.4, 3.5), (1.9, 5.5),
                           (1.3, 4), (1.35, 4), (1.6, 4), (1.28, 5), (1.7, 4)])
        if i % 6 == 5:
            # decimal oversampling factors times lengths that give a whole number (1.3 x 10,
            # 1.6 x 20, 1.35 x 40 ...): every place that derives the oversampled size must agree
            grid = [int(pick(rng, [[5, 10, 20, 25, 40], [5, 10, 20], [5, 10]][nd - 1]))
                    for _ in range(nd)]
        P.add("acc", grid=grid, M=M, batch=pick(rng, [[], [], [2], [2, 2], [5]]),
              ccls=pick(rng, ["inside", "inside", "integer", "ties", "clustered", "outside"]),
              img=pick(rng, ["gauss", "gauss", "delta", "edge-delta", "const", "expo"]),
              oversamp=ov, width=w, cseed=int(rng.integers(1 << 30)),
              pts2d=bool(rng.random() < 0.2))
    # directed worst case (the known finding's mechanism), every run
    for nd, n in ((1, 16), (1, 33), (2, 8), (2, 16), (3, 8), (3, 5)):
        for ov in (1.25, 2):
            P.add("worst", grid=[n] * nd, oversamp=ov, width=4)
    # realistic sizes (256 x 256 images, multi-channel volumes): oversampled grids beyond 256
    # samples per axis and beyond 2**24 samples in total, unordered coordinates; the exact
    # transform is evaluated without its matrix (vf.oracles.ndft.ndft_separable)
    real_ = [([256, 256], [], 1.25, 160), ([140, 150], [], 2, 120), ([96, 96, 96], [12], 1.25, 20),
             ([300, 220], [3], 1.25, 100), ([1000], [], 1.25, 300), ([4099], [5], 2, 200),
             ([205, 64], [], 1.25, 150), ([64, 64, 300], [], 1.25, 40), ([640, 640], [32], 1.25, 24),
             ([130, 24, 140], [2], 2, 40), ([257, 255], [7], 1.25, 80), ([48, 48, 48], [70], 1.25, 16)]
    rngr = P.rng("realistic")
    for i, (grid, batch, ov, M) in enumerate(real_[:3] if quick else real_):
        P.add("realistic", grid=grid, batch=batch, oversamp=ov, width=4, M=M,
              ccls=pick(rngr, ["inside", "inside", "outside"]), cseed=int(rngr.integers(1 << 30)),
              timeout=900)
    # the same in a process whose numba thread pool has four threads (more than 4096 samples,
    # a count that is not a multiple of the pool size)
    for i, (grid, batch, ov, M) in enumerate([([64, 64], [], 1.25, 5003), ([40, 44], [3], 2, 4999)]
                                             [:1 if quick else 2]):
        P.add("realistic", grid=grid, batch=batch, oversamp=ov, width=4, M=M, ccls="inside",
              cseed=int(rngr.integers(1 << 30)), timeout=900, threads=4)
    # histories: the same image size transformed with several (oversamp, width) settings in
    # one process - in particular oversampling factors that round to the same oversampled grid
    # size - then the first setting again: anything cached between calls must be keyed by
    # every parameter, and a repeated call must give the identical result
    for i in range(40 if quick else 500):
        nd = int(pick(rng, [1, 1, 2]))
        n = int(pick(rng, [4, 8, 10, 12, 16, 20]))
        grid = [n] * nd if nd == 1 else [n, int(pick(rng, [4, 6, 8, 10]))]
        settings = [(1.25, 4), (1.3, 4), (1.35, 4), (1.5, 4), (2, 4), (1.25, 5), (1.25, 3.5),
                    (2, 6)]
        k = int(rng.integers(3, 6))
        seq = [settings[j] for j in rng.choice(len(settings), size=k, replace=False)]
        P.add("history", grid=grid, M=int(rng.integers(16, 32)), seq=[list(s_) for s_ in seq],
              ccls=pick(rng, ["inside", "outside"]), cseed=int(rng.integers(1 << 30)))
    return P.cases


def make_image(rng, kind, shape, nd):
    grid = shape[-nd:]
    if kind == "gauss":
        return crandn(rng, shape)
    x = np.zeros(shape, np.complex128)
    if kind == "delta":
        idx = tuple(int(rng.integers(g)) for g in grid)
        x[(Ellipsis,) + idx] = 1 + 0.5j
    elif kind == "edge-delta":
        idx = tuple(int(pick(rng, [0, g - 1])) for g in grid)
        x[(Ellipsis,) + idx] = 1
    elif kind == "const":
        x[...] = 1 - 0.3j
    elif kind == "expo":
        k = [(rng.random() - 0.5) for _ in grid]
        ph = sum(kk * np.arange(g).reshape([-1 if i == d else 1 for i in range(nd)])
                 for d, (kk, g) in enumerate(zip(k, grid)))
        x[...] = np.exp(2j * np.pi * ph)
    if len(shape) > nd:     # different content per batch entry
        x = x * (1 + np.arange(int(np.prod(shape[:-nd]))).reshape(
            tuple(shape[:-nd]) + (1,) * nd))
    return x


def metric(y, ref, x, M, N):
    den = max(nrm(ref), np.sqrt(M / N) * nrm(x))
    return nrm(y - ref) / den if den > 0 else nrm(y - ref)


def run_realistic(case, rng):
    import sigpy as sp
    grid, batch, ov, w, M = case["grid"], case["batch"], case["oversamp"], case["width"], case["M"]
    nd = len(grid)
    N = int(np.prod(grid))
    coord = lops.make_coord(case["cseed"], [M], grid, case["ccls"])
    coord = coord[np.random.default_rng(case["cseed"]).permutation(M)]      # no order at all
    x = (rng.standard_normal(batch + grid, dtype=np.float32)
         + 1j * rng.standard_normal(batch + grid, dtype=np.float32))
    dtol = 2e-4
    if case.get("threads"):
        import numba
        if numba.get_num_threads() != case["threads"]:
            return inconclusive("this worker's numba thread pool has %d threads, not %d" % (
                numba.get_num_threads(), case["threads"]), sig="threads-not-active")
        x = x.astype(np.complex128)          # double precision: exact adjointness to 1e-9
        dtol = 1e-9
    sig = "realistic|%dd|%s|b%d|%s%s" % (nd, "x".join(map(str, grid)), int(np.prod(batch))
                                         if batch else 0, ov,
                                         "|threads%d" % case["threads"] if case.get("threads")
                                         else "")
    wit = {k: case[k] for k in ("grid", "batch", "oversamp", "width", "M", "ccls", "cseed")}
    wit["nd"] = nd
    y = sp.nufft(x, coord, oversamp=ov, width=w)
    if tuple(y.shape) != tuple(batch) + (M,):
        return violated(sig, "nufft output shape %s, expected %s" % (y.shape, tuple(batch) + (M,)),
                        wit, mech="shape")
    ref = O.ndft_separable(x, coord, nd)
    th = THRESH[(ov, w)]
    bound = th if nd == 1 else max(th, sep_bound(ov, nd))
    checks = 0
    worst = 0.0
    yb, rb, xb = y.reshape(-1, M), ref.reshape(-1, M), x.reshape((-1,) + tuple(grid))
    for b_ in range(yb.shape[0]):              # every batch entry on its own
        err = metric(yb[b_], rb[b_], xb[b_], M, N)
        checks += 1
        worst = max(worst, err)
        if not err <= bound:
            return violated(sig, "nufft of batch entry %d of %d differs from the exact "
                            "non-uniform DFT: relative l2 error %.4f (bound %.3g; grid %s, "
                            "oversamp %s)" % (b_, yb.shape[0], err, bound, grid, ov),
                            dict(wit, err=err), mech="threshold", obs={"err": err})
    # adjoint: values at sampled voxels of every batch entry against the exact adjoint sum,
    # and the inner-product identity
    d = (rng.standard_normal(batch + [M], dtype=np.float32)
         + 1j * rng.standard_normal(batch + [M], dtype=np.float32)).astype(x.dtype)
    xa = sp.nufft_adjoint(d, coord, batch + grid, oversamp=ov, width=w)
    if tuple(xa.shape) != tuple(batch + grid):
        return violated(sig, "nufft_adjoint output shape %s, expected %s" % (
            xa.shape, tuple(batch + grid)), wit, mech="shape")
    V = 64
    vox = np.stack([rng.integers(0, g, V) for g in grid], axis=-1)
    got = xa.reshape((-1,) + tuple(grid))[(slice(None),) + tuple(vox[:, a] for a in range(nd))]
    refa = O.ndft_adjoint_at(d, coord, grid, vox).reshape(-1, V)
    for b_ in range(got.shape[0]):
        den = max(nrm(refa[b_]), np.sqrt(V / N) * nrm(d.reshape(-1, M)[b_]))
        erra = nrm(got[b_] - refa[b_]) / den if den > 0 else nrm(got[b_] - refa[b_])
        checks += 1
        worst = max(worst, erra)
        if not erra <= 3 * bound:
            return violated(sig, "nufft_adjoint of batch entry %d of %d differs from the exact "
                            "adjoint sum at %d sampled voxels: relative error %.4f" % (
                                b_, got.shape[0], V, erra), dict(wit, err=erra),
                            mech="adjoint-values", obs={"err": erra})
    lhs, rhs = inner(y, d), inner(x, xa)
    sc = nrm(y) * nrm(d) + nrm(x) * nrm(xa) + 1e-300
    checks += 1
    if not abs(lhs - rhs) <= dtol * sc:
        return violated(sig, "<nufft x, d> = %s but <x, nufft_adjoint d> = %s" % (lhs, rhs), wit,
                        mech="adjoint")
    return held(sig, {"worst_err": worst, "bound": bound}, checks)


def run_case(case):
    import sigpy as sp
    rng = rng_for(case)
    grid = case["grid"]
    nd = len(grid)
    ov, w = case.get("oversamp"), case.get("width")
    N = int(np.prod(grid))
    if case["gen"] == "worst":
        # unit impulse on a corner voxel; every coordinate sits at the same offset c = 1/256
        # of the *oversampled* grid (k = (j + c) / scale), just past the point where a kernel
        # sample enters at the window edge: the kernel's worst offset in every dimension
        from math import ceil
        x = np.zeros(grid, np.complex128)
        x[(0,) * nd] = 1
        per = []
        for n in grid:
            scale = ceil(ov * n) / n
            j = np.arange(-3, 3) if nd > 1 else np.arange(-9, 9)
            per.append((j + 1 / 256.0) / scale)
        mesh = np.meshgrid(*per, indexing="ij")
        coord = np.ascontiguousarray(np.stack([m.ravel() for m in mesh], axis=-1))
        y = sp.nufft(x, coord, oversamp=ov, width=w)
        ref = O.ndft(x, coord, nd)
        M = coord.shape[0]
        err = metric(y, ref, x, M, N)
        pw = float(np.max(np.abs(y - ref) / np.abs(ref)))
        sig = "worst|%dd|n%d|%s" % (nd, grid[0], ov)
        obs = {"err": err, "pointwise_max": pw, "thresh": THRESH[(ov, w)],
               "sep_bound": sep_bound(ov, nd)}
        wit = {"grid": grid, "oversamp": ov, "width": w, "nd": nd, "err": err,
               "image": "corner impulse", "coords": "offset lattice"}
        if not err <= THRESH[(ov, w)]:
            return violated(sig, "relative l2 error %.4f exceeds the stated %.3g for a corner "
                            "impulse in %d-D (%s, oversamp %s, width %s)" % (
                                err, THRESH[(ov, w)], nd, grid, ov, w), wit,
                            mech="threshold", obs=obs)
        return held(sig, obs, 1)

    if case["gen"] == "realistic":
        return run_realistic(case, rng)

    if case["gen"] == "history":
        M = case["M"]
        coord = lops.make_coord(case["cseed"], [M], grid, case["ccls"])
        x = crandn(rng, grid)
        ref = O.ndft(x, coord, nd)
        sig = "history|%dd|%s" % (nd, case["ccls"])
        wit = {k: case[k] for k in ("grid", "M", "seq", "ccls", "cseed")}
        wit["nd"] = nd
        first = None
        checks = 0
        worst = 0.0
        for (ov_, w_) in [tuple(s_) for s_ in case["seq"]] + [tuple(case["seq"][0])]:
            y = sp.nufft(x, coord, oversamp=ov_, width=w_)
            ya = sp.nufft_adjoint(y, coord, grid, oversamp=ov_, width=w_)
            err = metric(y, ref, x, M, N)
            checks += 1
            th = THRESH.get((ov_, w_))
            bound = th if th is not None else (
                max(0.03, sep_bound(1.25, nd)) if (ov_ >= 1.25 and w_ >= 4) else 0.25)
            if nd >= 2 and th is not None:
                bound = max(th, sep_bound(ov_, nd))
            worst = max(worst, err / bound)
            if not err <= bound:
                return violated(sig, "after other (oversamp, width) settings were used in this "
                                "process, nufft at (%s, %s) is off by %.4f (bound %.3g)" % (
                                    ov_, w_, err, bound), dict(wit, err=err), mech="history",
                                obs={"err": err})
            # adjoint with the same setting
            xg = crandn(rng, grid)
            yg = sp.nufft(xg, coord, oversamp=ov_, width=w_)
            lhs, rhs = inner(yg, y), inner(xg, ya)
            sc = nrm(yg) * nrm(y) + nrm(xg) * nrm(ya) + 1e-300
            if not abs(lhs - rhs) <= 1e-10 * sc:
                return violated(sig, "adjoint identity fails at (%s, %s) in a history" % (
                    ov_, w_), wit, mech="history-adjoint")
            if first is None:
                first = y.copy()
        if not np.array_equal(first, y):
            return violated(sig, "repeating the first setting after others gives a different "
                            "result (max diff %.3g)" % float(np.max(np.abs(first - y))), wit,
                            mech="history-nondeterministic")
        return held(sig, {"err/bound": worst}, checks)
    batch, M = case["batch"], case["M"]
    pts = [M] if not case["pts2d"] else [2, (M + 1) // 2]
    Mtot = int(np.prod(pts))
    coord = lops.make_coord(case["cseed"], pts, grid, case["ccls"])
    x = make_image(rng, case["img"], batch + grid, nd)
    single = sum(case["rs"]) % 7 == 0          # complex64 data path
    if single:
        x = x.astype(np.complex64)
    mag = [1, 1, 1, 1e-10, 1e8][sum(case["rs"]) % 5]       # the transform is homogeneous
    if mag != 1:
        x = x * x.dtype.type(mag)
    lay = sum(case["rs"]) % 5
    if lay == 1:
        x = np.asfortranarray(x)                     # Fortran-ordered image
    elif lay == 2 and x.ndim >= 2:
        x = np.ascontiguousarray(x.T).T              # transposed view of a C array
    elif lay == 3:
        big = np.zeros(tuple(2 * n_ for n_ in x.shape), x.dtype)
        sl = tuple(slice(None, None, 2) for _ in x.shape)
        big[sl] = x
        x = big[sl]                                  # strided view
    x0, c0 = x.copy(order="C"), coord.copy()
    sig = "|".join(map(str, [nd, "".join("o" if g % 2 else "e" for g in grid), len(batch),
                             case["ccls"], case["img"], ov, w, "p2" if case["pts2d"] else "p1",
                             "c64" if single else "c128", "lay%d" % (sum(case["rs"]) % 5)]))
    wit = {k: case[k] for k in ("grid", "M", "batch", "ccls", "img", "oversamp", "width",
                                "cseed", "pts2d")}
    wit["nd"] = nd
    obs = {}
    checks = 0
    if float(w) == int(w) and sum(case["rs"]) % 3 == 2:
        # an integral kernel width handed over as a narrow NumPy integer (a header field)
        w = [np.int8, np.int16, np.uint8][(sum(case["rs"]) // 3) % 3](w)
        sig += "|intwidth"
    try:
        if sum(case["rs"]) % 4 == 1:
            y = sp.nufft(x, coord, ov, w)          # documented signature, positional
        else:
            y = sp.nufft(x, coord, oversamp=ov, width=w)
    except Exception as e:
        return violated(sig, "nufft raised %s: %s" % (type(e).__name__, str(e)[:200]), wit,
                        mech="raised")
    if not (np.array_equal(x, x0) and np.array_equal(coord, c0)):
        return violated(sig, "nufft modified an argument", wit, mech="mutated")
    ref = O.ndft(x0, coord, nd)
    if tuple(y.shape) != tuple(ref.shape):
        return violated(sig, "output shape %s, expected %s" % (y.shape, ref.shape), wit,
                        mech="shape")
    # accuracy per batch entry (the transform is looped over batch axes)
    yb = y.reshape(-1, Mtot)
    rb = ref.reshape(-1, Mtot)
    xb = x0.reshape(-1, N)
    errs = [metric(yb[i], rb[i], xb[i], Mtot, N) for i in range(yb.shape[0])]
    err = float(max(errs))
    obs["err"] = err
    wit["err"] = err
    checks += 1
    th = THRESH.get((ov, w))
    if th is not None:
        obs["err/thresh"] = err / th
        if not err <= th:
            return violated(sig, "relative l2 error %.4f exceeds the stated %.3g (grid %s, %s "
                            "coordinates, %s image, oversamp %s, width %s)" % (
                                err, th, grid, case["ccls"], case["img"], ov, w), wit,
                            mech="threshold", obs=obs)
    else:
        # no absolute threshold in the statement: still an approximation of the NDFT (a wrong
        # scaling / centre / sign gives O(1)).  Sanity bound: a setting with oversamp >= 1.25
        # and width >= 4 is at least as accurate as the default (3 %, or the separable kernel
        # bound in several dimensions; observed <= 2.3 % over all such settings); 25 % for
        # narrower kernels (observed <= 3.2 %)
        sane = max(0.03, sep_bound(1.25, nd)) if (ov >= 1.25 and w >= 4) else 0.25
        obs["err/sanity"] = err / sane
        if not err <= sane:
            return violated(sig, "not an approximation of the NDFT at all: error %.3f at "
                            "(oversamp %s, width %s)" % (err, ov, w), wit, mech="gross",
                            obs=obs)
    # monotone improvement: (2, 6) at least as good as (1.25, 4) on the same case
    if (ov, w) == (1.25, 4):
        y26 = sp.nufft(x0, coord, oversamp=2, width=6)
        e26 = max(metric(y26.reshape(-1, Mtot)[i], rb[i], xb[i], Mtot, N)
                  for i in range(yb.shape[0]))
        checks += 1
        obs["err26"] = e26
        if not e26 <= err + 1e-9:
            return violated(sig, "error grows with oversampling/width: %.3g at (2,6) vs %.3g "
                            "at (1.25,4)" % (e26, err), wit, mech="monotone", obs=obs)
    # periodicity
    d = int(rng.integers(nd))
    shift = np.zeros(nd)
    shift[d] = grid[d] * int(pick(rng, [-2, -1, 1, 3]))
    yp = sp.nufft(x0, coord + shift, oversamp=ov, width=w)
    checks += 1
    pe = nrm(yp - y) / max(nrm(y), np.sqrt(Mtot / N) * nrm(x0), 1e-300)
    # Coordinates that land exactly on a window edge of the oversampled grid (integer and
    # half-integer classes) sit on the kernel's discontinuity (I0(0) = 1 at |u| = 1): a
    # rounding difference of 1 ulp in k*scale+shift legitimately includes or drops an edge
    # sample, so there both results are only required to agree within the accuracy class.
    ptol = (1e-9 if not single else 1e-4) if case["ccls"] not in ("integer", "ties") \
        else 2 * (th or 0.1)
    obs["periodicity" if ptol <= 1e-4 else "periodicity_ties"] = pe
    if not pe <= ptol:
        return violated(sig, "not periodic in the coordinates: shifting axis %d by %d changes "
                        "the result by %.3g" % (d, shift[d], pe), wit, mech="periodicity",
                        obs=obs)
    # exact adjointness
    cdt = np.complex64 if single else np.complex128
    yy = crandn(rng, y.shape, cdt) * cdt(mag)
    if sum(case["rs"]) % 4 == 1:
        xa = sp.nufft_adjoint(yy, coord, batch + grid, ov, w)
    else:
        xa = sp.nufft_adjoint(yy, coord, batch + grid, oversamp=ov, width=w)
    xg = crandn(rng, batch + grid, cdt)
    yg = sp.nufft(xg, coord, oversamp=ov, width=w)
    lhs, rhs = inner(yg, yy), inner(xg, xa)
    sc = nrm(yg) * nrm(yy) + nrm(xg) * nrm(xa) + 1e-300
    checks += 1
    obs["adjoint"] = abs(lhs - rhs) / sc
    if tuple(xa.shape) != tuple(batch + grid):
        return violated(sig, "nufft_adjoint shape %s, requested %s" % (xa.shape, batch + grid),
                        wit, mech="adjoint-shape")
    if not abs(lhs - rhs) <= (1e-10 if not single else 1e-4) * sc:
        return violated(sig, "nufft_adjoint is not the adjoint of nufft: %s vs %s" % (lhs, rhs),
                        wit, mech="adjoint", obs=obs)
    # the operator classes are the same transform with the same parameters, also when reached
    # indirectly (adjoint of the adjoint, NUFFTAdjoint constructed directly) and after the
    # operator objects rejected an input (integer image, wrong rank)
    if sum(case["rs"]) % 3 == 0:
        A = sp.linop.NUFFT(batch + grid, coord, oversamp=ov, width=w)
        B = sp.linop.NUFFTAdjoint(batch + grid, coord, oversamp=ov, width=w)
        if (sum(case["rs"]) // 3) % 2 == 0:
            # the operators went through pickle / a deep copy between construction and use
            import copy
            import pickle
            A, B = pickle.loads(pickle.dumps(A)), copy.deepcopy(B)
            if sum(case["rs"]) % 2:
                B = pickle.loads(pickle.dumps(B))
        for op_, shp_ in ((A, batch + grid), (B, list(y.shape))):
            for bad_ in (np.ones(shp_, np.int64), np.ones(shp_ + [2], np.complex128),
                         np.ones(shp_, np.float32)):
                try:
                    op_(bad_)
                except Exception:
                    pass
        xc = np.ascontiguousarray(x0)
        rt = 1e-12 if not single else 1e-5
        for nm_, got_, ref_ in (("linop.NUFFT", A(xc), y), ("linop.NUFFT.H", A.H(yy), xa),
                                ("linop.NUFFT.H.H", A.H.H(xc), y),
                                ("linop.NUFFTAdjoint", B(yy), xa),
                                ("linop.NUFFTAdjoint.H", B.H(xc), y),
                                ("linop.NUFFTAdjoint.H.H", B.H.H(yy), xa)):
            checks += 1
            d_ = nrm(np.asarray(got_) - ref_) / max(nrm(ref_), 1e-300)
            obs["linop_paths"] = max(obs.get("linop_paths", 0.0), d_)
            if np.shape(got_) != np.shape(ref_) or not d_ <= rt:
                return violated(sig, "%s differs from the function called with the same "
                                "(oversamp %s, width %s): rel %.3g" % (nm_, ov, w, d_), wit,
                                mech="linop-path", obs=obs)
    # coordinates handed over with an integer dtype (on-grid points from arange / mgrid):
    # either rejected or as accurate as the same points given as floats
    if case["ccls"] == "integer" and np.array_equal(coord, np.round(coord)):
        ci_ = coord.astype(np.int64)
        for nm_, call_, ref_ in (
                ("nufft", lambda: sp.nufft(x0, ci_, oversamp=ov, width=w), y),
                ("nufft_adjoint", lambda: sp.nufft_adjoint(yy, ci_, batch + grid, oversamp=ov,
                                                           width=w), xa)):
            try:
                got_ = call_()
            except Exception:
                obs["int_coord_rejected"] = 1
                continue
            checks += 1
            d_ = nrm(got_ - ref_) / max(nrm(ref_), 1e-300)
            obs["int_coord_accepted"] = d_
            if np.shape(got_) != np.shape(ref_) or not d_ <= (1e-9 if not single else 1e-4):
                return violated(sig, "%s accepts integer-dtype coordinates but returns "
                                "something else than for the same points as floats: rel %.3g"
                                % (nm_, d_), wit, mech="int-coord", obs=obs)
    # Gram: nufft_adjoint(nufft(x)) ~ E^H E x within 2 eps
    if th is not None and case["img"] == "gauss":
        E = O.ndft_matrix(coord, grid)
        G = E.conj().T @ E
        refg = (xb @ G.T).reshape(x0.shape)
        gg = sp.nufft_adjoint(y, coord, batch + grid, oversamp=ov, width=w)
        den = max(nrm(refg), 1e-300)
        ge = nrm(gg - refg) / den
        checks += 1
        obs["gram/thresh"] = ge / (2 * th)
        # ||E^H (Ex - y)|| <= ||E|| ||Ex - y||: allow the operator norm of E in the bound
        opn = float(np.linalg.norm(E, 2))
        bound = 2 * th * max(1.0, opn * nrm(ref) / den)
        if not ge <= bound:
            return violated(sig, "nufft_adjoint(nufft(x)) differs from the exact Gram matrix "
                            "E^H E x by %.3g (bound %.3g)" % (ge, bound), wit, mech="gram",
                            obs=obs)
    # integer coordinates: exact transform sample equals the centred DFT sample
    if case["ccls"] == "integer":
        F = ODFT.dft(x0, axes=list(range(-nd, 0)), center=True, norm="ortho")
        ci = np.round(coord).astype(int).reshape(-1, nd)
        samp = np.stack([F[(Ellipsis,) + tuple((ci[j, dd] + grid[dd] // 2) % grid[dd]
                                               for dd in range(nd))]
                         for j in range(ci.shape[0])], axis=-1).reshape(ref.shape)
        checks += 1
        if nrm(samp - ref) > (1e-9 if not single else 1e-4) * max(nrm(ref), nrm(x0), 1e-300):
            return inconclusive("oracle self-check failed: NDFT at integer coordinates "
                                "differs from DFT samples")
    return held(sig, obs, checks)
