"""C09 - resize/shift/resample/block functions move exactly the documented elements.

Deciding monitor: labelled inputs (x = 1..size, complex label k + i k in half of the
cases) so every output element names its source, compared *exactly* with index-map
definitions written independently of sigpy (python loops over indices), for the
functions and for the Linop wrappers (advertised shapes included); numba bounds-check
sanitizer on (block kernels are numba).
"""
import itertools

import numpy as np

from vf.common import vary_seq, Plan, held, violated, inconclusive, rng_for, pick

SPEC = {
    "deciding_monitors": ["fn:resize", "fn:circshift", "fn:flip", "fn:downsample", "fn:upsample", "fn:array_to_blocks", "fn:blocks_to_array", "in:layout:F", "in:layout:strided", "in:complex64", "in:float32", "in:int64"],
    "rule": ("cases = one (function, shapes, parameters) tuple each for resize (default and "
             "explicit shifts), circshift, flip, downsample, upsample, array_to_blocks, "
             "blocks_to_array (1-3 block dims + batch dims; overlap/tiling/gap/non-dividing) "
             "through the function and the Linop; distinct = function + structural class "
             "(grow/shrink pattern, parity, overlap class, axes kind); non-trivial = output "
             "or input with >= 2 elements"),
    "boundscheck": {"quick": True, "thorough": True},
    "case_timeout": 120.0,
    "assumptions": ["exact equality: labels are small integers, exactly representable"],
}

FUNCS = ["resize", "resize-shift", "circshift", "flip", "downsample", "upsample",
         "array_to_blocks", "blocks_to_array"]


def plan(tier, seed):
    P = Plan(9, seed)
    quick = tier == "quick"
    rng = P.rng("move")
    for f in FUNCS:
        for i in range(110 if quick else 2500):
            nd = int(pick(rng, [1, 2, 2, 3]))
            lim = 7 if quick else 10
            if i % 8 == 7:         # size-dependent regime: long axes (past 16 / 32)
                lim = [40, 20, 11][nd - 1]
            shape = [int(rng.integers(1, lim + 1)) for _ in range(nd)]
            if i % 55 == 27:
                # realistic sizes: tens of thousands of elements (an image, a long record, a
                # small volume) - the labelled-element definition is still exact
                shape = [[int(rng.integers(66000, 72000))], [int(rng.integers(200, 300)),
                                                              int(rng.integers(250, 330))],
                         [int(rng.integers(34, 44)), 41, int(rng.integers(40, 48))]][nd - 1]
                if f in ("array_to_blocks", "blocks_to_array"):
                    shape = [[4100], [66, 70], [17, 16, 18]][nd - 1]
            c = {"fn": f, "shape": shape, "cplx": bool(rng.random() < 0.5),
                 "dt": pick(rng, ["default", "default", "default", "float32", "complex64",
                                  "int64"]),
                 "noncontig": pick(rng, [False, False, "strided", "F", "T"]),
                 "dtseq": bool(rng.random() < 0.25),
                 "via": pick(rng, ["func", "linop"])}
            if f == "resize":
                c["oshape"] = [max(1, s + int(rng.integers(-4, 5))) for s in shape]
                if nd >= 2 and i % 5 == 4:
                    # one axis grows, another shrinks, same number of elements (permuted
                    # shape, or a re-factorisation such as (2, 6) -> (3, 4))
                    c["oshape"] = [int(v) for v in rng.permutation(shape)]
                    if c["oshape"] == shape and shape[0] % 2 == 0:
                        c["oshape"] = [shape[0] // 2, shape[1] * 2] + shape[2:]
            elif f == "resize-shift":
                c["oshape"] = [max(1, s + int(rng.integers(-4, 5))) for s in shape]
                c["ishift"] = [int(rng.integers(0, s + 1)) for s in shape]
                c["oshift"] = [int(rng.integers(0, s + 1)) for s in c["oshape"]]
            elif f == "circshift":
                k = int(rng.integers(1, nd + 1))
                ax = sorted(rng.choice(nd, size=k, replace=False).tolist())
                style = pick(rng, ["none", "pos", "neg", "mixed", "dup"])
                if style == "none":
                    c["axes"] = None
                    k = nd
                elif style == "dup":
                    # an axis named more than once (a field-of-view shift plus a half shift on
                    # the same axis), also under its positive and its negative name: every
                    # (shift, axis) pair is one circular shift, so they add up
                    ax = [int(a) for a in rng.permutation(ax + [int(pick(rng, ax))])]
                    c["axes"] = [int(a - nd) if rng.random() < 0.5 else int(a) for a in ax]
                    k = len(ax)
                else:
                    ax = [int(a) for a in rng.permutation(ax)]       # any order, not sorted
                    c["axes"] = [int(a - nd) if (style == "neg" or (style == "mixed" and
                                 rng.random() < 0.5)) else int(a) for a in ax]
                c["shift"] = [int(rng.integers(-2 * lim, 2 * lim + 1)) for _ in range(k)]
            elif f == "flip":
                k = int(rng.integers(1, nd + 1))
                ax = sorted(rng.choice(nd, size=k, replace=False).tolist())
                style = pick(rng, ["none", "pos", "neg", "mixed", "mixed"])
                c["axes"] = None if style == "none" else [
                    int(a - nd) if (style == "neg" or (style == "mixed" and j_ % 2 == 0))
                    else int(a) for j_, a in enumerate(rng.permutation(ax).tolist())]
            elif f in ("downsample", "upsample"):
                c["factors"] = [int(rng.integers(1, 5)) for _ in shape]
                c["fshift"] = None if rng.random() < 0.3 else [
                    int(rng.integers(0, min(s, ff + (3 if rng.random() < 0.4 else 0))))
                    for s, ff in zip(shape, c["factors"])]      # shifts past the factor too
                if f == "upsample":
                    sh = c["fshift"] or [0] * nd
                    c["oshape"] = [(s - 1) * ff + h + 1 + int(rng.integers(0, ff))
                                   for s, ff, h in zip(shape, c["factors"], sh)]
            else:
                D = nd
                batch = pick(rng, [[], [], [2], [2, 1], [2, 3], [5]])
                c["batch"] = batch
                c["blk"] = [int(rng.integers(1, s + 1)) for s in shape]
                c["strides"] = [int(rng.integers(1, b + 2)) for b in c["blk"]]
            P.add("move", **c)
    return P.cases


_DT = ["default"]
_NC = [False]
_MG = [0]          # power-of-two exponent applied to the labels (exact in every float type)
_PZ = [None]       # (selector, value): some labelled elements replaced by NaN / inf


def label(shape, cplx):
    x = np.arange(1, int(np.prod(shape)) + 1, dtype=np.float64).reshape(shape)
    if cplx and _DT[0] not in ("float32", "int64"):
        x = x + 1j * x
    if _DT[0] != "default":
        x = x.astype(_DT[0])
    if _MG[0] and x.dtype == np.int64:
        x = x + (1 << 55)        # integers that float64 cannot represent exactly
    if _MG[0] and x.dtype.kind in "fc":
        x = x * x.dtype.type(2.0 ** _MG[0])      # ~1e-10 / ~1e+8: still exactly representable
    if _PZ[0] is not None and x.dtype.kind in "fc" and x.size:
        # non-finite samples (masked-out voxels stored as NaN, saturated samples as inf): they
        # are moved / summed like any other element and touch no other position
        step, val = _PZ[0]
        x.reshape(-1)[(step * 7) % x.size::max(step, 1) + 3] = val
    if _NC[0] in (True, "strided") and x.ndim >= 1:
        # same values seen through a strided (non-contiguous) view
        big = np.zeros(tuple(2 * n for n in x.shape), x.dtype)
        sl = tuple(slice(None, None, 2) for _ in x.shape)
        big[sl] = x
        x = big[sl]
    elif _NC[0] == "F":
        x = np.asfortranarray(x)
    elif _NC[0] == "T" and x.ndim >= 2:
        x = np.ascontiguousarray(x.T).T          # transposed view of a C array
    return x


def ref_resize(x, oshape, ishift=None, oshift=None):
    ishape = x.shape
    if ishift is None and oshift is None:
        off = [o // 2 - i // 2 for i, o in zip(ishape, oshape)]   # out idx = in idx + off
    else:
        si = ishift if ishift is not None else [max(i // 2 - o // 2, 0)
                                                for i, o in zip(ishape, oshape)]
        so = oshift if oshift is not None else [max(o // 2 - i // 2, 0)
                                                for i, o in zip(ishape, oshape)]
        off = None
    out = np.zeros(oshape, x.dtype)
    for idx in itertools.product(*[range(n) for n in ishape]):
        if off is not None:
            j = tuple(i + d for i, d in zip(idx, off))
            if all(0 <= jj < o for jj, o in zip(j, oshape)):
                out[j] = x[idx]
        else:
            # explicit shifts: copy the block starting at ishift to the block starting at oshift
            r = [i - s for i, s in zip(idx, si)]
            j = tuple(rr + s for rr, s in zip(r, so))
            ext = [min(i - a, o - b) for i, a, o, b in zip(ishape, si, oshape, so)]
            if all(0 <= rr < e for rr, e in zip(r, ext)):
                out[j] = x[idx]
    return out


def ref_circshift(x, shift, axes):
    nd = x.ndim
    axes = list(range(nd)) if axes is None else [a % nd for a in axes]
    out = np.zeros_like(x)
    for idx in itertools.product(*[range(n) for n in x.shape]):
        j = list(idx)
        for a, s in zip(axes, shift):
            j[a] = (j[a] + s) % x.shape[a]
        out[tuple(j)] = x[idx]
    return out


def ref_flip(x, axes):
    nd = x.ndim
    axes = list(range(nd)) if axes is None else [a % nd for a in axes]
    out = np.zeros_like(x)
    for idx in itertools.product(*[range(n) for n in x.shape]):
        j = tuple(x.shape[d] - 1 - i if d in axes else i for d, i in enumerate(idx))
        out[j] = x[idx]
    return out


def ref_downsample(x, factors, shift):
    shift = shift or [0] * x.ndim
    oshape = [len(range(s, n, f)) for n, f, s in zip(x.shape, factors, shift)]
    out = np.zeros(oshape, x.dtype)
    for j in itertools.product(*[range(n) for n in oshape]):
        out[j] = x[tuple(s + f * jj for jj, f, s in zip(j, factors, shift))]
    return out


def ref_upsample(x, oshape, factors, shift):
    shift = shift or [0] * x.ndim
    out = np.zeros(oshape, x.dtype)
    for j in itertools.product(*[range(n) for n in x.shape]):
        out[tuple(s + f * jj for jj, f, s in zip(j, factors, shift))] = x[j]
    return out


def nblocks(N, b, s):
    return [(n - bb + ss) // ss for n, bb, ss in zip(N, b, s)]


def ref_a2b(x, batch_nd, b, s):
    N = x.shape[batch_nd:]
    nb = nblocks(N, b, s)
    out = np.zeros(tuple(x.shape[:batch_nd]) + tuple(nb) + tuple(b), x.dtype)
    for bi in itertools.product(*[range(n) for n in x.shape[:batch_nd]]):
        for blk in itertools.product(*[range(n) for n in nb]):
            for k in itertools.product(*[range(n) for n in b]):
                src = tuple(q * ss + kk for q, ss, kk in zip(blk, s, k))
                out[bi + blk + k] = x[bi + src]
    return out


def ref_b2a(y, batch_nd, N, b, s):
    nb = nblocks(N, b, s)
    out = np.zeros(tuple(y.shape[:batch_nd]) + tuple(N), y.dtype)
    for bi in itertools.product(*[range(n) for n in y.shape[:batch_nd]]):
        for blk in itertools.product(*[range(n) for n in nb]):
            for k in itertools.product(*[range(n) for n in b]):
                dst = tuple(q * ss + kk for q, ss, kk in zip(blk, s, k))
                out[bi + dst] += y[bi + blk + k]
    return out


def run_case(case):
    if case.get("dtseq") and not case.get("_inner"):
        # dtype history: the same call for a sequence of element types in one process,
        # narrowest first (anything remembered between calls must be keyed by the dtype)
        last = None
        for dt in ("int64", "float32", "default", "complex64", "default"):
            r = run_case(dict(case, dt=dt, _inner=True, cplx=(dt in ("default", "complex64"))))
            if r["verdict"] != "held":
                r["why"] = "in a sequence of calls with other element types: " + r.get("why", "")
                return r
            last = r
        last["sig"] = "dtseq|" + last["sig"]
        return last
    return run_one(case)


def run_one(case):
    import sigpy as sp
    L = sp.linop
    f = case["fn"]
    shape = case["shape"]
    cplx = case["cplx"]
    via = case["via"]
    wit = dict(case)
    op = None
    _DT[0] = case.get("dt", "default")
    _NC[0] = case.get("noncontig") or False
    _MG[0] = [0, 0, 0, -34, 27][sum(case["rs"]) % 5]
    _PZ[0] = None
    if sum(case["rs"]) % 4 == 1 and case.get("dt", "default") in ("default", "float32",
                                                                    "complex64"):
        _PZ[0] = (sum(case["rs"]) % 11, [np.nan, np.inf, -np.inf][sum(case["rs"]) % 3])
    at_ = (sum(case["rs"]) // 5) % 8       # container type of the integer-sequence arguments

    def V(seq):
        return vary_seq(seq, at_)
    try:
        if f in ("resize", "resize-shift"):
            x = label(shape, cplx)
            ish, osh = case.get("ishift"), case.get("oshift")
            ref = ref_resize(x, case["oshape"], ish, osh)
            if via == "func":
                got = sp.resize(x, V(case["oshape"]), ishift=V(ish), oshift=V(osh))
            else:
                op = L.Resize(V(case["oshape"]), V(shape), ishift=V(ish), oshift=V(osh))
                got = op(x)
            cls = "".join("g" if o > s else "s" if o < s else "e"
                          for o, s in zip(case["oshape"], shape)) + \
                "".join("o" if s % 2 else "e" for s in shape)
        elif f == "circshift":
            x = label(shape, cplx)
            ref = ref_circshift(x, case["shift"], case["axes"])
            if via == "func":
                got = sp.circshift(x, V(case["shift"]), V(case["axes"]))
            else:
                op = L.Circshift(V(shape), V(case["shift"]), axes=V(case["axes"]))
                got = op(x)
            cls = "none" if case["axes"] is None else (
                "neg" if any(a < 0 for a in case["axes"]) else "pos") + str(len(shape)) + (
                "u" if [a % len(shape) for a in case["axes"]] != sorted(
                    a % len(shape) for a in case["axes"]) else "s")
        elif f == "flip":
            x = label(shape, cplx)
            ref = ref_flip(x, case["axes"])
            if via == "func" and case["axes"] is not None and sum(case["rs"]) % 5 == 3:
                # axes handed over as a one-shot iterator (map / generator / reversed list)
                it_ = [iter(list(case["axes"])), (int(a) for a in case["axes"]),
                       map(int, case["axes"])][sum(case["rs"]) % 3]
                got = sp.flip(x, it_)
            elif via == "func":
                got = sp.flip(x, V(case["axes"]))
            else:
                op = L.Flip(V(shape), axes=V(case["axes"]))
                got = op(x)
            cls = "none" if case["axes"] is None else (
                "neg" if any(a < 0 for a in case["axes"]) else "pos") + str(len(shape))
        elif f == "downsample":
            x = label(shape, cplx)
            ref = ref_downsample(x, case["factors"], case["fshift"])
            if via == "func":
                got = sp.downsample(x, V(case["factors"]), shift=V(case["fshift"]))
            else:
                op = L.Downsample(V(shape), V(case["factors"]), shift=V(case["fshift"]))
                got = op(x)
            cls = "%d|%s|%s" % (len(shape), case["fshift"] is None, max(case["factors"]))
        elif f == "upsample":
            x = label(shape, cplx)
            ref = ref_upsample(x, case["oshape"], case["factors"], case["fshift"])
            if via == "func":
                got = sp.upsample(x, V(case["oshape"]), V(case["factors"]), shift=V(case["fshift"]))
            else:
                op = L.Upsample(V(case["oshape"]), V(case["factors"]), shift=V(case["fshift"]))
                got = op(x)
            cls = "%d|%s|%s" % (len(shape), case["fshift"] is None, max(case["factors"]))
        else:
            batch, b, s = case["batch"], case["blk"], case["strides"]
            ocls = "".join("o" if ss < bb else "t" if ss == bb else "g"
                           for bb, ss in zip(b, s))
            nond = "".join("n" if (n - bb) % ss else "d" for n, bb, ss in zip(shape, b, s))
            cls = "%d|%s|%s|b%d" % (len(shape), ocls, nond, len(batch))
            if f == "array_to_blocks":
                x = label(batch + shape, cplx)
                ref = ref_a2b(x, len(batch), b, s)
                if via == "func":
                    got = sp.array_to_blocks(x, V(b), V(s))
                else:
                    op = L.ArrayToBlocks(V(batch + shape), V(b), V(s))
                    got = op(x)
            else:
                nb = nblocks(shape, b, s)
                surplus = via == "func" and sum(case["rs"]) % 4 == 3
                if surplus:
                    # more blocks than fit entirely (overlap-add of a zero-padded record,
                    # cropped by asking for the original shape): the part of an overhanging
                    # block that lies inside the output is still summed into place
                    extra = [int(1 + (sum(case["rs"]) + d_) % 2) for d_ in range(len(nb))]
                    nb2 = [n_ + e_ for n_, e_ in zip(nb, extra)]
                    x = label(batch + nb2 + b, cplx)
                    bigN = [(n_ - 1) * s_ + b_ for n_, s_, b_ in zip(nb2, s, b)]
                    refbig = ref_b2a(x, len(batch), bigN, b, s)
                    ref = refbig[(Ellipsis,) + tuple(slice(0, n_) for n_ in shape)]
                else:
                    x = label(batch + nb + b, cplx)
                    ref = ref_b2a(x, len(batch), shape, b, s)
                if via == "func":
                    got = sp.blocks_to_array(x, V(batch + shape), V(b), V(s))
                else:
                    op = L.BlocksToArray(V(batch + shape), V(b), V(s))
                    got = op(x)
    except Exception as e:
        inn = e
        while inn.__cause__ is not None:
            inn = inn.__cause__
        sig = "%s|%s|raised" % (f, via)
        mech = "bounds" if isinstance(inn, IndexError) else "raised:" + type(inn).__name__
        return violated(sig, "%s raised %s: %s" % (f, type(inn).__name__, str(inn)[:200]),
                        wit, mech=mech)
    sig = "%s|%s|%s|%s|%s%s" % (f, via, cls, "c" if cplx else "r", case.get("dt", "default"),
                                "|%s" % case.get("noncontig") if case.get("noncontig") else "")
    if _PZ[0] is not None:
        sig += "|nonfinite"
    x0 = label(x.shape, cplx)
    if not np.array_equal(x, x0, equal_nan=True):
        return violated(sig, "%s modified its input" % f, wit, mech="mutated")
    if op is not None and ([int(v) for v in op.oshape] != list(ref.shape)
                           or [int(v) for v in op.ishape] != list(x.shape)):
        return violated(sig, "Linop advertises %s<-%s, definition gives %s<-%s" % (
            op.oshape, op.ishape, list(ref.shape), list(x.shape)), wit, mech="advertised")
    if tuple(got.shape) != tuple(ref.shape):
        return violated(sig, "output shape %s, definition gives %s" % (got.shape, ref.shape),
                        wit, mech="shape")
    if got.dtype != x.dtype:
        return violated(sig, "%s changed the element type from %s to %s" % (f, x.dtype,
                                                                             got.dtype), wit,
                        mech="dtype:" + f)
    if not np.array_equal(got, ref, equal_nan=True):
        bad = np.argwhere(~((got == ref) | (np.isnan(got) & np.isnan(ref))))
        k = tuple(bad[0])
        return violated(sig, "%d element(s) differ from the documented placement; first at %s: "
                        "got %s, expected %s (labels name the source element)" % (
                            len(bad), k, got[k], ref[k]), wit, mech="placement:" + f)
    return held(sig, {"elements": int(ref.size)}, 1, max(ref.size, x.size) >= 2)
