"""C04 - the normal operator A.N is A^H A.

Deciding monitor: reference comparison of the real A.N with the composition of the
real A and A.H on complex data: ||A.N x - A.H(A x)|| <= 1e-10 (||A.H A x|| + 1e-3 ||x||)
for every operator whose normal operator is algebraic or an analytic shortcut, for all
leaf classes, block operators over all overlap classes (exhaustive in 1-D for N <= 8),
and trees; for NUFFT(toeplitz=True) the bound is 2*eps(oversamp, width) with
eps(1.25, 4) = 3 %, eps(2, 4) = 0.3 % (the statement's accuracy classes), M >= 16 points.
Also <A.N x, x> is real and >= 0 (A.N is Hermitian PSD as a map).
"""
import numpy as np

from vf import lops
from vf.monitors import STATE
from vf.oracles.algebra import Spec
from vf.oracles import ndft as ONDFT
from vf.common import structured, Plan, crandn, held, violated, inconclusive, rng_for, nrm, inner, pick

SPEC = {
    "rule": ("cases = operator descriptions: every leaf class, exhaustive 1-D block settings "
             "(N <= 8 quick / 10 thorough, all block sizes, strides 1..b+1), random 2-D/3-D "
             "block settings, NUFFT with toeplitz on/off, random trees and .N of trees; "
             "distinct = structural signature incl. overlap class per axis; non-trivial = "
             "not Identity"),
    "boundscheck": {"quick": False, "thorough": True},
    "case_timeout": 240.0,
    "deciding_monitors": ["Linop.apply", "in:layout:F", "in:layout:strided", "in:complex64"],
    "assumptions": ["Toeplitz accuracy classes taken from the statement: 3 % at the default "
                    "(1.25, 4), 0.3 % at oversamp 2; other (oversamp, width) pairs are run "
                    "with toeplitz off only", "CPU/numpy backend"],
}

TOEP_EPS = {(1.25, 4): 0.03, (2, 4): 0.003}


def plan(tier, seed):
    P = Plan(4, seed)
    quick = tier == "quick"
    per_kind = 36 if quick else 300
    maxn = 6 if quick else 9
    for kind in lops.LEAF_KINDS:
        rng = P.rng("leaf:" + kind)
        for i in range(per_kind):
            d = lops.gen_leaf(rng, kind, None, maxn)
            if d is not None:
                P.add("leaf:" + kind, desc=d)
    for kind in lops.ARRAY_KINDS:
        # parameter arrays with structure (unit modulus, +-1 / +-i, all ones, constant,
        # one-hot): where a shortcut keyed on "looks unitary / looks like a mask" would bite
        rng = P.rng("struct:" + kind)
        for i in range((36 if kind == "Multiply" else 12) if quick else 150):
            d = lops.gen_struct_leaf(rng, kind, maxn)
            if d is not None:
                P.add("struct:" + kind, desc=d)
    for kind in lops.LEAF_KINDS:
        # size-dependent regime: lengths past 16 / 32, more than three batch / coil entries
        rng = P.rng("big:" + kind)
        for i in range(4 if quick else 50):
            d = lops.gen_leaf(rng, kind, None, 34)
            if d is not None:
                P.add("big:" + kind, desc=d)
    # exhaustive 1-D block settings
    NB = 8 if quick else 10
    for N in range(1, NB + 1):
        for b in range(1, N + 1):
            for s in range(1, b + 2):
                nb = (N - b + s) // s
                for which in ("ArrayToBlocks", "BlocksToArray"):
                    batch = [2] if (N + b + s) % 3 == 0 else []
                    if which == "ArrayToBlocks":
                        d = {"op": which, "ishape": batch + [N], "oshape": batch + [nb, b],
                             "blk": [b], "strides": [s]}
                    else:
                        d = {"op": which, "oshape": batch + [N], "ishape": batch + [nb, b],
                             "blk": [b], "strides": [s]}
                    P.add("blocks1d", desc=d)
    rng = P.rng("blocksnd")
    for i in range(150 if quick else 3000):
        kind = pick(rng, ["ArrayToBlocks", "BlocksToArray"])
        d = None
        while d is None or len(d["blk"]) < 2:
            d = lops.MAKERS[kind](rng, None, maxn)
        P.add("blocksnd", desc=d)
    rng = P.rng("toeplitz")
    for i in range(80 if quick else 800):
        nd = int(pick(rng, [1, 2, 2, 3]))
        grid = [int(rng.integers(4, [17, 9, 6][nd - 1])) for _ in range(nd)]
        if i % 2:
            # size-dependent regime: long axes, primes and numbers with large prime factors
            grid = [int(rng.integers([10, 8, 5][nd - 1], [41, 21, 10][nd - 1])) for _ in range(nd)]
        M = int(rng.integers(16, 40))
        ov, w = pick(rng, [(1.25, 4), (1.25, 4), (2, 4)])
        if i % 4 == 3:
            # decimal oversampling factors times lengths that give a whole number: every place
            # that derives an oversampled size (operator grid, Toeplitz embedding) must agree
            ov = pick(rng, [1.6, 1.3, 1.35, 1.4])
            grid = [int(pick(rng, [[5, 10, 20, 40], [5, 10, 20], [5, 10]][nd - 1]))
                    for _ in range(nd)]
        d = {"op": "NUFFT", "ishape": pick(rng, [[], [], [], [2], [2], [1], [2, 3]]) + grid,
             "nd": nd, "pts": [M], "ccls": pick(rng, ["inside", "inside", "outside",
                                                      "clustered"]),
             "oversamp": ov, "width": w, "toeplitz": True, "aseed": int(rng.integers(1 << 30))}
        d["oshape"] = d["ishape"][:-nd] + [M]
        P.add("toeplitz", desc=d)
    # a trajectory of more than 2**20 samples (golden-angle radial, a long spiral train) on a
    # small image: the Toeplitz kernel is accumulated over every sample
    for i in range(1 if quick else 4):
        g_ = int(pick(rng, [48, 64]))
        M = int(pick(rng, [(1 << 20) + 400003, 1572864 + 5, (1 << 21) + 600011]))
        d = {"op": "NUFFT", "ishape": [g_, g_], "nd": 2, "pts": [M], "ccls": "inside",
             "oversamp": 1.25, "width": 4, "toeplitz": True, "aseed": int(rng.integers(1 << 30))}
        d["oshape"] = [M]
        P.add("toeplitz", desc=d, timeout=900, force_double=True)
    # wavelets PyWavelets flags as orthogonal although they are so only approximately (the
    # discrete Meyer wavelet), and biorthogonal ones, on axes long enough to be decomposed:
    # A.N is still what A.H(A x) gives
    for i, (wv, shp, lv) in enumerate([("dmey", [150], 1), ("dmey", [140, 6], 1),
                                       ("bior4.4", [40, 9], 2), ("dmey", [260], None),
                                       ("rbio3.5", [64], 2)]):
        ax_ = None if len(shp) == 1 else [0]
        d = {"op": "Wavelet", "ishape": shp, "axes": ax_, "wave": wv, "level": lv,
             "oshape": lops.wavelet_coeff_shape(shp, wv, ax_, lv)}
        P.add("big:Wavelet", desc=d)
        d2 = {"op": "InverseWavelet", "oshape": shp, "axes": ax_, "wave": wv, "level": lv,
              "ishape": lops.wavelet_coeff_shape(shp, wv, ax_, lv)}
        P.add("big:InverseWavelet", desc=d2)
    rng = P.rng("tree")
    for i in range(300 if quick else 8000):
        depth = int(rng.integers(1, 3 if quick else 4))
        d = lops.gen_tree(rng, depth, None, 5)
        P.add("tree", desc=d)
    return P.cases


def _overflow_guard(case, res, runner, is_single, to_double):
    """A violation that shows NaN/inf in a single-precision case may be float32 overflow
    (un-normalised kernel weights applied several times): decide the same case in double
    precision; if it holds there the single-precision run says nothing either way."""
    why = str(res.get("why", ""))
    if res.get("verdict") == "violated" and is_single and ("nan" in why or "inf" in why):
        r64 = runner(to_double)
        if r64.get("verdict") == "held":
            return {"verdict": "inconclusive", "sig": "c64-overflow", "nontrivial": False,
                    "why": "single-precision overflow (holds in double precision): " + why[:120]}
        return r64
    return res


def run_case(case):
    return _overflow_guard(case, run_one(case), run_one, sum(case["rs"]) % 6 == 0,
                           dict(case, force_double=True))


def run_one(case):
    desc = case["desc"]
    rng = rng_for(case)
    sig = lops.signature(desc)
    nontrivial = any(l != "Identity" for l in lops.leaf_ops(desc))
    try:
        if sum(case["rs"]) % 2:
            lops.prime_siblings(desc)     # construction history (see lops.prime_siblings)
        A = lops.build(desc)
    except Exception as e:
        return inconclusive("constructor raised %s: %s [%s]" % (
            type(e).__name__, str(e)[:60], sig[:150]), sig="ctor-raised")
    wit = {"desc": desc, "repr": repr(A)}
    toep = desc["op"] == "NUFFT" and desc.get("toeplitz")
    if toep:
        # Both T x and A^H(A x) approximate the exact Gram product; each nufft pass is
        # accurate to eps_nd = max(stated accuracy, separable worst-case bound of the kernel)
        # relative to its exact output, the psf carries two passes and A^H A two more:
        #   ||T x - A^H A x|| <= 4 eps_nd ||E||_2 ||A x||      (E = exact NDFT matrix)
        from vf.workloads.c06 import sep_bound
        # (other oversampling factors >= 1.25 at width 4: at least as accurate as the default,
        # C06's sanity bound)
        ov_ = desc["oversamp"]
        eps_nd = max(TOEP_EPS.get((ov_, desc["width"]), 0.03),
                     sep_bound(ov_ if ov_ in (1.25, 2, 2.0) else 1.25, desc["nd"]))
        tol = 4 * eps_nd
        coord = lops.leaf_arrays(desc)["coord"]
        N_ = int(np.prod(desc["ishape"][-desc["nd"]:]))
        if coord.shape[0] * N_ <= 5e7:
            opn = float(np.linalg.norm(ONDFT.ndft_matrix(coord, desc["ishape"][-desc["nd"]:]), 2))
        else:
            # (no matrix for a million samples: for coordinates drawn uniformly over the field
            # of view E^H E is close to (M / N) I)
            opn = 1.3 * float(np.sqrt(coord.shape[0] / N_))
            # (with a million uniformly spread samples the two sides agree to a few 1e-3 on
            # the unchanged tree; 2 % of ||A^H A x|| is asked for, far inside the generic bound)
            tol = 0.02
    else:
        tol = 1e-10
    single = (not toep) and sum(case["rs"]) % 6 == 0 and not case.get("force_double")
    if single:
        tol = 2e-4
        sig += "|c64"
    obs = {}
    checks = 0
    try:
        N = A.N
        AH = A.H
        if list(N.ishape) != list(A.ishape) or list(N.oshape) != list(A.ishape):
            return violated(sig, "A.N has shapes %s<-%s, expected %s<-%s" % (
                N.oshape, N.ishape, A.ishape, A.ishape), wit, mech="shape")
        worst = 0.0
        for k in range(3):
            with structured((sum(case["rs"]) // 3) % 10 if sum(case["rs"]) % 2 else 0):
                x = crandn(rng, tuple(A.ishape), np.complex64 if single else np.complex128)
            if k == 2 and x.size:           # sparse probe: isolates coverage-count errors
                x = np.zeros(tuple(A.ishape), np.complex64 if single else np.complex128)
                x.reshape(-1)[int(rng.integers(x.size))] = 1 + 1j
            STATE.peak = 0.0
            Ax_ = A(x)
            ref = np.asarray(AH(Ax_))
            got = np.asarray(N(x))
            checks += 1
            if got.shape != ref.shape:
                return violated(sig, "A.N x has shape %s, A.H(A x) has %s" % (
                    got.shape, ref.shape), wit, mech="shape")
            if toep:
                sc = max(nrm(ref), opn * nrm(Ax_))
            else:
                sc = nrm(ref) + 1e-3 * max(nrm(x), STATE.peak)
                if "parts" in desc or "A" in desc:
                    sc += 1e13 * Spec(lops.build, lops.scalar_value).noise(
                        {"op": "N", "A": desc}, x)[1]
            e = nrm(got - ref) / sc if sc > 0 else nrm(got - ref)
            worst = max(worst, e)
            if not e <= tol:
                return violated(sig, "A.N x differs from A.H(A x): rel %.3g (tol %.3g)" % (
                    e, tol), wit, mech="toeplitz" if toep else "value", obs={"rel": e})
            q = inner(got, x)
            checks += 1
            qs = abs(q) + nrm(x) ** 2 * 1e-3
            ptol = 1e-9 if not (toep or single) else 1e-4
            # (+ tol * sc * ||x||: q inherits the rounding of A.N x, which the value check
            # above allows up to tol * sc - trees with large intermediate gains and cancelling
            # parts carry round-off far above eps * |q|)
            slack_ = tol * sc * nrm(x)
            if not (abs(q.imag) <= ptol * qs + slack_ and q.real >= -ptol * qs - slack_):
                return violated(sig, "<A.N x, x> = %s is not real non-negative" % q, wit,
                                mech="psd", obs={"q": [q.real, q.imag]})
        obs["rel"] = worst
        obs["N_type"] = type(N).__name__
        # history: the operator is handed to the library's own consumers of A.N (least-squares
        # apps with a regulariser, the maximum-eigenvalue estimate) between two uses: what
        # they build from A.N must not leak back into the operator's normal operator
        if sum(case["rs"]) % 4 == 2 and int(np.prod(A.ishape)) <= 4096:
            import sigpy as sp
            ydat = crandn(rng, tuple(A.oshape), np.complex64 if single else np.complex128)
            ncons = 0
            for kw_ in (dict(lamda=0.37, max_iter=2),
                        dict(lamda=0.21, solver="ADMM", rho=0.5, max_iter=2, max_cg_iter=2),
                        dict(lamda=0.11, solver="GradientMethod", max_iter=2,
                             max_power_iter=2)):
                try:
                    sp.app.LinearLeastSquares(A, ydat, show_pbar=False, **kw_).run()
                    ncons += 1
                except Exception:
                    pass                 # whether the app can use this operator is C14's matter
            try:
                sp.app.MaxEig(A.N, dtype=ydat.dtype, max_iter=2, show_pbar=False).run()
                ncons += 1
            except Exception:
                pass
            x = crandn(rng, tuple(A.ishape), np.complex64 if single else np.complex128)
            STATE.peak = 0.0
            Ax_ = A(x)
            ref = np.asarray(A.H(Ax_))
            got = np.asarray(A.N(x))
            checks += 1
            if toep:
                sc = max(nrm(ref), opn * nrm(Ax_))
            else:
                sc = nrm(ref) + 1e-3 * max(nrm(x), STATE.peak)
                if "parts" in desc or "A" in desc:
                    sc += 1e13 * Spec(lops.build, lops.scalar_value).noise(
                        {"op": "N", "A": desc}, x)[1]
            e = nrm(got - ref) / sc if sc > 0 else nrm(got - ref)
            obs["rel_after_consumers"] = e
            obs["consumers_run"] = ncons
            sig += "|consumers"
            if got.shape != ref.shape or not e <= tol:
                return violated(sig, "after the operator was used by %d solver / eigenvalue "
                                "apps, A.N x differs from A.H(A x): rel %.3g (tol %.3g)" % (
                                    ncons, e, tol), wit, mech="after-consumers",
                                obs={"rel": e})
        # history: the caller refreshes, in place, the arrays the operator was built from (a
        # new matrix / filter / multiplier in the same buffers, as in alternating updates).
        # A and A.H follow the new content, so the A.N taken earlier must as well (the NUFFT's
        # coordinates and its pre-computed Toeplitz kernel are left alone)
        if sum(case["rs"]) % 4 == 1 and not toep and not single:
            from vf.monitors import linop_mon
            caps = [(n_, v_) for n_, v_ in linop_mon.captured_tree(A).values()
                    if v_.flags.writeable and v_.dtype.kind in "fc" and v_.size
                    and not n_.endswith(("coord", ".psf"))]
            if caps:
                for n_, v_ in caps:
                    v_ *= v_.dtype.type(0.8 + 0.6j) if v_.dtype.kind == "c" \
                        else v_.dtype.type(-1.5)
                    v_.reshape(-1)[::2] *= v_.dtype.type(0.5)
                x = crandn(rng, tuple(A.ishape), np.complex128)
                STATE.peak = 0.0
                ref = np.asarray(AH(A(x)))
                got = np.asarray(N(x))
                checks += 1
                sc = nrm(ref) + 1e-3 * max(nrm(x), STATE.peak)
                if "parts" in desc or "A" in desc:
                    sc += 1e13 * Spec(lops.build, lops.scalar_value).noise(
                        {"op": "N", "A": desc}, x)[1]
                e = nrm(got - ref) / sc if sc > 0 else nrm(got - ref)
                obs["rel_after_param_update"] = e
                sig += "|param-update"
                if got.shape != ref.shape or not e <= tol:
                    return violated(sig, "after the arrays the operator was built from (%s) were "
                                    "refreshed in place, the A.N taken earlier differs from "
                                    "A.H(A x): rel %.3g" % (
                                        ", ".join(n_ for n_, _ in caps)[:120], e), wit,
                                    mech="param-update", obs={"rel": e})
    except Exception as e:
        inn = e
        while inn.__cause__ is not None:
            inn = inn.__cause__
        return violated(sig, "applying A.N / A.H A raised %s: %s" % (
            type(inn).__name__, str(inn)[:300]), wit, mech="raised:" + type(inn).__name__)
    return held(sig + "|N:" + obs["N_type"], obs, checks, nontrivial)
