"""Runtime-monitoring machinery for the given properties of mikgroup/sigpy.

Layout (see DESIGN.md section 2):
  vf.runner      parent process: plan, worker pool, watchdogs, verdict, evidence
  vf.worker      worker process: installs monitors, runs cases one at a time
  vf.monitors    class-level monitors attached to the real sigpy classes
  vf.oracles     reference models (pure numpy, never import sigpy)
  vf.workloads   one module per property: plan(tier, seed) + run_case(case)
  vf.findings    mechanism classifiers for known findings
"""
