"""pytest plugin: run the repository's own test suite with the class-level monitors installed
(`python -m pytest -p vf.pytest_plugin tests`).  The suite then serves as one more workload:
thousands of operator / prox / solver events from realistic histories (iterative apps,
MRI reconstructions) pass through the same oracles.  Counters and violation events are
written as JSON to $VF_PYTEST_OUT at the end of the session."""
import json
import os


def pytest_configure(config):
    from vf import monitors
    monitors.install()


def pytest_sessionfinish(session, exitstatus):
    from vf.monitors import STATE
    out = os.environ.get("VF_PYTEST_OUT")
    if not out:
        return
    with open(out, "w") as fh:
        json.dump({"count": dict(STATE.count), "events": STATE.events[:50],
                   "exitstatus": int(exitstatus),
                   "collected": int(getattr(session, "testscollected", 0)),
                   "failed": int(getattr(session, "testsfailed", 0))}, fh)
