"""Small helpers shared by the workloads (no sigpy imports)."""
import numpy as np


def rng_for(case, *extra):
    return np.random.default_rng([int(v) for v in case["rs"]] + [int(e) for e in extra])


_STRUCT = [0]
STRUCT_KINDS = ["gauss", "const", "alternating", "onehot", "small-int", "pow2", "zeros-mixed",
                "palindrome", "denormal", "antisym"]


class structured:
    """Context manager: inside it, crandn() returns data with structure that Gaussian draws
    never have - constant, alternating sign, one-hot, small integers (many exact ties), signed
    powers of two, exact zeros of both signs, palindromic, sprinkled denormals - selected by
    `k` (0 = plain Gaussian).  Only the *data* probes of a check are drawn inside it; matrices
    and parameters that must be generic stay Gaussian."""

    def __init__(self, k):
        self.k = int(k) % len(STRUCT_KINDS)

    def __enter__(self):
        self.old = _STRUCT[0]
        _STRUCT[0] = self.k
        return STRUCT_KINDS[self.k]

    def __exit__(self, *a):
        _STRUCT[0] = self.old


def _structure(rng, a, k):
    shape = a.shape
    n = a.size
    if n == 0 or k == 0:
        return a
    cplx = np.iscomplexobj(a)
    c = a.reshape(-1)[0]
    if k == 1:
        return np.full(shape, c, a.dtype)
    if k == 2:
        return (c * (-1.0) ** np.arange(n)).reshape(shape).astype(a.dtype)
    if k == 3:
        out = np.zeros(n, a.dtype)
        out[int(rng.integers(n))] = c
        return out.reshape(shape)
    if k == 4:
        re = rng.integers(-2, 3, n).astype(float)
        im = rng.integers(-2, 3, n).astype(float) if cplx else 0
        return (re + 1j * im if cplx else re).reshape(shape).astype(a.dtype)
    if k == 5:
        re = np.sign(rng.standard_normal(n)) * 2.0 ** rng.integers(-3, 4, n)
        im = np.sign(rng.standard_normal(n)) * 2.0 ** rng.integers(-3, 4, n) if cplx else 0
        return (re + 1j * im if cplx else re).reshape(shape).astype(a.dtype)
    if k == 6:
        out = a.copy().reshape(-1)
        z = rng.random(n) < 0.4
        out[z] = 0
        neg = z & (rng.random(n) < 0.5)
        out[neg] = -0.0 if not cplx else complex(-0.0, -0.0)
        return out.reshape(shape)
    if k == 7:
        flat = a.reshape(-1)
        return ((flat + flat[::-1]) / 2).reshape(shape).astype(a.dtype)
    if k == 9:
        # second half = minus first half (flat order): sums over a leading batch / coil axis
        # cancel exactly although no entry is zero
        out = a.copy().reshape(-1)
        h = n // 2
        out[h:2 * h] = -out[:h]
        return out.reshape(shape)
    out = a.copy().reshape(-1)
    # (double: genuine subnormals; single: tiny normal magnitudes with head-room for products
    # with O(1) factors - float32 subnormals carry a few bits only, so no identity can be
    # checked on them to single precision)
    tiny = 1e-30 if a.dtype in (np.float32, np.complex64) else 5e-310
    m = rng.random(n) < 0.3
    out[m] = tiny
    return out.reshape(shape)


def crandn(rng, shape, dtype=np.complex128):
    dtype = np.dtype(dtype)
    if dtype.kind == "c":
        a = rng.standard_normal(shape) + 1j * rng.standard_normal(shape)
    else:
        a = rng.standard_normal(shape)
    a = np.asarray(a).astype(dtype)
    if _STRUCT[0]:
        a = _structure(rng, a, _STRUCT[0])
    return a


def nrm(a):
    a = np.asarray(a)
    if a.dtype.kind in "fc" and a.dtype.itemsize < (16 if a.dtype.kind == "c" else 8):
        # (single precision: squares of values near 1e-30 underflow in float32)
        a = a.astype(np.complex128 if a.dtype.kind == "c" else np.float64)
    return float(np.linalg.norm(a.ravel()))


def relerr(a, b):
    """||a-b|| / max(||b||, tiny)."""
    a = np.asarray(a)
    b = np.asarray(b)
    if a.shape != b.shape:
        return float("inf")
    d = nrm(a - b)
    return d / max(nrm(b), 1e-300) if d else 0.0


def inner(a, b):
    """<a, b> = sum a * conj(b)."""
    return complex(np.vdot(np.asarray(b).ravel(), np.asarray(a).ravel()))


def held(sig, obs=None, checks=1, nontrivial=True):
    return {"verdict": "held", "sig": sig, "obs": obs or {}, "checks": checks,
            "nontrivial": nontrivial}


def violated(sig, why, witness=None, mech=None, obs=None, checks=1):
    r = {"verdict": "violated", "sig": sig, "why": why, "witness": witness or {},
         "obs": obs or {}, "checks": checks}
    if mech:
        r["mech"] = mech
    return r


def inconclusive(why, sig="inconclusive"):
    return {"verdict": "inconclusive", "sig": sig, "why": why, "nontrivial": False}


class Plan:
    """Collects cases; every case gets rs = [seed, propnum, gen_id, idx]."""

    def __init__(self, propnum, seed):
        self.propnum = propnum
        self.seed = int(seed)
        self.cases = []
        self.gens = {}
        self.nper = {}

    def rng(self, gen, idx=0, salt=0):
        gid = self.gens.setdefault(gen, len(self.gens))
        return np.random.default_rng([self.seed, self.propnum, gid, idx, salt, 7919])

    def add(self, gen, **params):
        gid = self.gens.setdefault(gen, len(self.gens))
        idx = self.nper.get(gen, 0)
        self.nper[gen] = idx + 1
        c = {"gen": gen, "rs": [self.seed, self.propnum, gid, idx]}
        c.update(params)
        self.cases.append(c)
        return c


def pick(rng, seq):
    return seq[int(rng.integers(len(seq)))]


def tolist(a):
    return [int(v) for v in a]


def dtype_tol(dtype, tight=1e-10, loose=2e-4):
    return loose if np.dtype(dtype) in (np.dtype(np.complex64), np.dtype(np.float32)) else tight


def relayout(x, k):
    """Same values, other memory layout: k % 4 == 1 Fortran order, 2 transposed view of a C
    array, 3 every-other-element view of a larger array, otherwise unchanged."""
    k = int(k) % 4
    if k == 1 and x.ndim >= 2:
        return np.asfortranarray(x)
    if k == 2 and x.ndim >= 2:
        return np.ascontiguousarray(x.T).T
    if k == 3 and x.ndim >= 1:
        big = np.zeros(tuple(2 * n for n in x.shape), x.dtype)
        sl = tuple(slice(None, None, 2) for _ in x.shape)
        big[sl] = x
        return big[sl]
    return x


def vary_seq(seq, k):
    """The same integer sequence handed over as another container type: list, tuple, NumPy
    int64 array, list of NumPy integers, narrow NumPy integers (int8 list, int16 array) and
    unsigned ones (uint16 array, uint8 list) when the values fit (None stays None)."""
    if seq is None:
        return None
    k = int(k) % 8
    if k == 6 and all(0 <= int(v) <= 60000 for v in seq):
        return np.asarray(seq, dtype=np.uint16)   # unsigned element types (header fields)
    if k == 7 and all(0 <= int(v) <= 250 for v in seq):
        return [np.uint8(v) for v in seq]
    k = k % 6 if k < 6 else k % 4
    if k == 4 and all(-120 <= int(v) <= 120 for v in seq):
        return [np.int8(v) for v in seq]          # narrow element types (header fields)
    if k == 5 and all(-30000 <= int(v) <= 30000 for v in seq):
        return np.asarray(seq, dtype=np.int16)
    k = k % 4
    if k == 1:
        return tuple(int(v) for v in seq)
    if k == 2:
        return np.asarray(seq, dtype=np.int64)
    if k == 3:
        return [np.int64(v) for v in seq]
    return [int(v) for v in seq]
