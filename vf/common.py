"""Small helpers shared by the workloads (no sigpy imports)."""
import numpy as np


def rng_for(case, *extra):
    return np.random.default_rng([int(v) for v in case["rs"]] + [int(e) for e in extra])


def crandn(rng, shape, dtype=np.complex128):
    dtype = np.dtype(dtype)
    if dtype.kind == "c":
        a = rng.standard_normal(shape) + 1j * rng.standard_normal(shape)
    else:
        a = rng.standard_normal(shape)
    return np.asarray(a).astype(dtype)


def nrm(a):
    return float(np.linalg.norm(np.asarray(a).ravel()))


def relerr(a, b):
    """||a-b|| / max(||b||, tiny)."""
    a = np.asarray(a)
    b = np.asarray(b)
    if a.shape != b.shape:
        return float("inf")
    d = nrm(a - b)
    return d / max(nrm(b), 1e-300) if d else 0.0


def inner(a, b):
    """<a, b> = sum a * conj(b)."""
    return complex(np.vdot(np.asarray(b).ravel(), np.asarray(a).ravel()))


def held(sig, obs=None, checks=1, nontrivial=True):
    return {"verdict": "held", "sig": sig, "obs": obs or {}, "checks": checks,
            "nontrivial": nontrivial}


def violated(sig, why, witness=None, mech=None, obs=None, checks=1):
    r = {"verdict": "violated", "sig": sig, "why": why, "witness": witness or {},
         "obs": obs or {}, "checks": checks}
    if mech:
        r["mech"] = mech
    return r


def inconclusive(why, sig="inconclusive"):
    return {"verdict": "inconclusive", "sig": sig, "why": why, "nontrivial": False}


class Plan:
    """Collects cases; every case gets rs = [seed, propnum, gen_id, idx]."""

    def __init__(self, propnum, seed):
        self.propnum = propnum
        self.seed = int(seed)
        self.cases = []
        self.gens = {}
        self.nper = {}

    def rng(self, gen, idx=0, salt=0):
        gid = self.gens.setdefault(gen, len(self.gens))
        return np.random.default_rng([self.seed, self.propnum, gid, idx, salt, 7919])

    def add(self, gen, **params):
        gid = self.gens.setdefault(gen, len(self.gens))
        idx = self.nper.get(gen, 0)
        self.nper[gen] = idx + 1
        c = {"gen": gen, "rs": [self.seed, self.propnum, gid, idx]}
        c.update(params)
        self.cases.append(c)
        return c


def pick(rng, seq):
    return seq[int(rng.integers(len(seq)))]


def tolist(a):
    return [int(v) for v in a]


def dtype_tol(dtype, tight=1e-10, loose=2e-4):
    return loose if np.dtype(dtype) in (np.dtype(np.complex64), np.dtype(np.float32)) else tight


def relayout(x, k):
    """Same values, other memory layout: k % 4 == 1 Fortran order, 2 transposed view of a C
    array, 3 every-other-element view of a larger array, otherwise unchanged."""
    k = int(k) % 4
    if k == 1 and x.ndim >= 2:
        return np.asfortranarray(x)
    if k == 2 and x.ndim >= 2:
        return np.ascontiguousarray(x.T).T
    if k == 3 and x.ndim >= 1:
        big = np.zeros(tuple(2 * n for n in x.shape), x.dtype)
        sl = tuple(slice(None, None, 2) for _ in x.shape)
        big[sl] = x
        return big[sl]
    return x
