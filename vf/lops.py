"""Operator descriptions: JSON-able specs of sigpy linear operators and trees.

gen_leaf / gen_tree build *descriptions* (structural parameters decided at plan
time, with the input/output shapes predicted by this module's own shape rules);
build() turns a description into the real sigpy operator in the worker; arrays a
leaf captures (mult, mat, coord, filt, ...) are drawn from the leaf's own seed so
a description fully determines the operator.

The predicted shapes are an independent statement of what each constructor must
advertise; build() reports a mismatch to the caller (checked by C01/C03).
"""
import numpy as np

from vf.common import pick

# (orthogonal families and biorthogonal ones: the operator algebra and the adjoint clause hold
# for every wavelet; C10's isometry / inverse clauses are stated for the orthogonal ones only)
WAVES = ["haar", "db2", "db4", "sym3", "coif1", "bior2.2", "rbio1.3", "bior4.4"]


# ---------------------------------------------------------------- helpers --

def _cap(maxn, small, big):
    """Size cap of a maker: `small` for the ordinary generators, `big` when the caller asks
    for large operands (maxn > 12: the size-dependent regime - lengths past 16 / 32, more
    than three batch / coil / channel entries)."""
    return big if maxn > 12 else small


def _shape(rng, ndim, maxn, minn=1):
    return [int(rng.integers(minn, maxn + 1)) for _ in range(ndim)]


def _axes_subset(rng, ndim, allow_none=True, nonempty=True):
    if allow_none and rng.random() < 0.2:
        return None
    k = int(rng.integers(1 if nonempty else 0, ndim + 1))
    ax = sorted(rng.choice(ndim, size=k, replace=False).tolist())
    style = rng.random()
    if style < 0.35:
        ax = [a - ndim for a in ax]
    elif style < 0.6:
        ax = [a - ndim if rng.random() < 0.5 else a for a in ax]
    return [int(a) for a in ax]


def _prod(s):
    p = 1
    for v in s:
        p *= int(v)
    return p


def _bcast_partner(rng, shape, allow_bigger=True):
    """A shape that broadcasts with `shape`: per-dim equal / 1 / (bigger where shape has 1),
    optionally with leading dims dropped or one extra leading dim."""
    out = []
    for s in shape:
        r = rng.random()
        if s == 1 and allow_bigger and r < 0.5:
            out.append(int(rng.integers(2, 4)))
        elif r < 0.3:
            out.append(1)
        else:
            out.append(int(s))
    r = rng.random()
    if r < 0.25 and len(out) > 0:
        out = out[int(rng.integers(1, len(out) + 1)):]
    elif r < 0.35 and allow_bigger:
        out = [int(rng.integers(2, 4))] + out
    return out


def _bshape(a, b):
    return [int(v) for v in np.broadcast_shapes(tuple(a), tuple(b))]


def _aseed(rng):
    return int(rng.integers(1, 2 ** 31 - 1))


def _arr(desc, name, shape, kind="complex"):
    """Parameter array of a leaf.  Most are Gaussian; a share (selected by the leaf's seed)
    has structure that random data never has: unit-modulus entries (random phases, or only
    +-1 / +-i), all ones, a constant, a single non-zero entry, a 0/1 mask."""
    rng = np.random.default_rng([desc["aseed"], sum(map(ord, name))])
    st = int(desc["aseed"]) % 11
    n = int(np.prod(shape)) if len(shape) else 1
    if kind == "complex":
        if st == 1:
            return np.exp(2j * np.pi * rng.random(shape))
        if st == 2:
            return np.ones(shape, complex)
        if st == 3:
            return np.asarray(1j ** rng.integers(0, 4, shape), complex).reshape(shape)
        if st == 4:
            return np.full(shape, complex(rng.standard_normal(), rng.standard_normal()))
        if st == 5 and n:
            out = np.zeros(n, complex)
            out[int(rng.integers(n))] = complex(rng.standard_normal(), rng.standard_normal())
            return out.reshape(shape)
        return rng.standard_normal(shape) + 1j * rng.standard_normal(shape)
    if kind == "real":
        if st in (1, 3):
            return np.asarray(rng.integers(0, 2, shape) * 2.0 - 1.0).reshape(shape)
        if st == 2:
            return np.ones(shape)
        if st == 4:
            return np.full(shape, float(rng.standard_normal()))
        if st == 5 and n:
            out = np.zeros(n)
            out[int(rng.integers(n))] = float(rng.standard_normal())
            return out.reshape(shape)
        return rng.standard_normal(shape)
    if kind == "pos":
        if st == 2:
            return np.ones(shape)
        if st == 5 and n:
            out = np.asarray(rng.integers(0, 2, shape), float).reshape(shape)
            out.reshape(-1)[0] = 1.0
            return out
        # (k-space weights are applied as weights**0.5 and need not be real: soft gating
        # with a phase, or negative weights kept in a complex array)
        if st == 7:
            return (rng.random(shape) + 0.1) * np.exp(2j * np.pi * rng.random(shape))
        if st == 8:
            return np.asarray((rng.random(shape) + 0.1) * (rng.integers(0, 2, shape) * 2 - 1),
                              complex).reshape(shape)
        return rng.random(shape) + 0.1
    raise ValueError(kind)


# ------------------------------------------------------ coordinate classes --

def make_coord(rng_seed, pts_shape, grid, cls):
    """Coordinates of shape pts_shape + [ndim] for a grid (last ndim axes)."""
    rng = np.random.default_rng([rng_seed, 4242])
    nd = len(grid)
    shp = list(pts_shape) + [nd]
    g = np.asarray(grid, float)
    if cls == "inside":
        c = (rng.random(shp) - 0.5) * g
    elif cls == "outside":
        c = (rng.random(shp) - 0.5) * g * 6
    elif cls == "ties":
        c = rng.integers(-2 * max(grid) - 1, 2 * max(grid) + 2, size=shp) / 2.0
    elif cls == "integer":
        c = rng.integers(-max(grid), max(grid) + 1, size=shp).astype(float)
    elif cls == "dup":
        c = (rng.random(shp) - 0.5) * g
        flat = c.reshape(-1, nd)
        if flat.shape[0] > 1:
            flat[1::2] = flat[0]
        c = flat.reshape(shp)
    elif cls == "clustered":
        c = 0.05 * rng.standard_normal(shp) + (rng.random(nd) - 0.5) * g
    else:
        raise ValueError(cls)
    return np.ascontiguousarray(c, dtype=np.float64)


COORD_CLASSES = ["inside", "inside", "outside", "ties", "integer", "dup"]


# ------------------------------------------------------------ leaf makers --
# each maker(rng, ishape_or_None, maxn) -> desc or None

def mk_Identity(rng, ishape, maxn):
    ishape = ishape or _shape(rng, int(rng.integers(1, 4)), maxn)
    return {"op": "Identity", "ishape": ishape, "oshape": list(ishape)}


def mk_ToDevice(rng, ishape, maxn):
    ishape = ishape or _shape(rng, int(rng.integers(1, 4)), maxn)
    return {"op": "ToDevice", "ishape": ishape, "oshape": list(ishape)}


def mk_AllReduce(rng, ishape, maxn):
    # single-rank communicator (no MPI in the sandbox): the reduction is the identity
    ishape = ishape or _shape(rng, int(rng.integers(1, 4)), maxn)
    return {"op": "AllReduce", "ishape": ishape, "oshape": list(ishape),
            "in_place": bool(rng.random() < 0.5)}


def mk_Reshape(rng, ishape, maxn):
    ishape = ishape or _shape(rng, int(rng.integers(1, 4)), maxn)
    n = _prod(ishape)
    r = rng.random()
    if r < 0.3:
        oshape = [n]
    elif r < 0.5:
        oshape = [1] + list(ishape)
    elif r < 0.7:
        oshape = list(ishape[::-1])
    else:
        fac = []
        m = n
        for p in (2, 3, 5, 7):
            while m % p == 0 and m > 1:
                fac.append(p)
                m //= p
        if m > 1:
            fac.append(m)
        rng.shuffle(fac)
        k = int(rng.integers(1, 4))
        oshape = [1] * k
        for i, f in enumerate(fac):
            oshape[i % k] *= f
        oshape = [int(v) for v in oshape]
    return {"op": "Reshape", "ishape": ishape, "oshape": oshape}


def mk_Transpose(rng, ishape, maxn):
    ishape = ishape or _shape(rng, int(rng.integers(1, 5)), maxn)
    nd = len(ishape)
    r = rng.random()
    if r < 0.25:
        axes = None
        oshape = list(ishape[::-1])
    else:
        axes = [int(a) for a in rng.permutation(nd)]
        if r > 0.6:
            axes = [a - nd if rng.random() < 0.6 else a for a in axes]
        oshape = [ishape[a] for a in axes]
    return {"op": "Transpose", "ishape": ishape, "oshape": oshape, "axes": axes}


def _mk_fft(name):
    def mk(rng, ishape, maxn):
        ish = ishape or _shape(rng, int(rng.integers(1, 4)), maxn)
        return {"op": name, "ishape": ish, "oshape": list(ish),
                "axes": _axes_subset(rng, len(ish)), "center": bool(rng.random() < 0.6)}
    return mk


def mk_MatMul(rng, ishape, maxn, right=False):
    if ishape is None:
        ishape = _shape(rng, int(rng.integers(2, 5)), _cap(maxn, min(maxn, 4), 9))
    if len(ishape) < 2:
        return None
    batch = list(ishape[:-2])
    m = int(rng.integers(1, _cap(maxn, min(maxn, 4), 17) + 1))
    mb = _bcast_partner(rng, batch)
    adjoint = bool(rng.random() < 0.4)
    if not right:
        n, k = ishape[-2], ishape[-1]
        core = [m, n]
        oshape = _bshape(batch, mb) + [m, k]
    else:
        k, n = ishape[-2], ishape[-1]
        core = [n, m]
        oshape = _bshape(batch, mb) + [k, m]
    if adjoint:
        core = core[::-1]
    return {"op": "RightMatMul" if right else "MatMul", "ishape": ishape, "oshape": oshape,
            "mshape": mb + core, "adjoint": adjoint, "aseed": _aseed(rng),
            "mreal": bool(rng.random() < 0.15)}


def mk_RightMatMul(rng, ishape, maxn):
    return mk_MatMul(rng, ishape, maxn, right=True)


def mk_Multiply(rng, ishape, maxn):
    ishape = ishape or _shape(rng, int(rng.integers(1, 4)), maxn)
    kind = pick(rng, ["array", "array", "array", "pyreal", "pycomplex", "npfloat",
                      "npcomplex", "one", "pyint"])
    d = {"op": "Multiply", "ishape": ishape, "mkind": kind, "conj": bool(rng.random() < 0.4),
         "aseed": _aseed(rng)}
    if kind == "array":
        ms = _bcast_partner(rng, ishape)
        if not ms:
            ms = [1]
        d["mshape"] = ms
        d["mreal"] = bool(rng.random() < 0.15)
        d["oshape"] = _bshape(ishape, ms)
    else:
        d["oshape"] = list(ishape)
    return d


def _kernel_params(rng, nd):
    if rng.random() < 0.5:
        kernel = "spline"
        param = ([int(rng.integers(0, 3)) for _ in range(nd)] if rng.random() < 0.3
                 else int(rng.integers(0, 3)))
    else:
        kernel = "kaiser_bessel"
        param = ([float(np.round(rng.uniform(1, 12), 3)) for _ in range(nd)]
                 if rng.random() < 0.3 else float(np.round(rng.uniform(1, 12), 3)))
        if rng.random() < 0.12:
            # a negative shape parameter: I0 is even, the kernel is that of |beta|
            param = [-p_ for p_ in param] if isinstance(param, list) else -param
    W = [1, 1.5, 2, 2.5, 3, 3.7, 4]
    width = ([float(pick(rng, W)) for _ in range(nd)] if rng.random() < 0.35
             else pick(rng, W))
    return kernel, param, width


def mk_Interpolate(rng, ishape, maxn):
    if ishape is None:
        nd = int(rng.integers(1, 4))
        nb = int(rng.integers(0, 3))
        ishape = _shape(rng, nb, 3) + _shape(rng, nd, maxn)
    else:
        nd = int(rng.integers(1, min(3, len(ishape)) + 1))
    pts = _shape(rng, int(pick(rng, [1, 1, 2])), 5)
    kernel, param, width = _kernel_params(rng, nd)
    return {"op": "Interpolate", "ishape": ishape, "oshape": list(ishape[:-nd]) + pts,
            "nd": nd, "pts": pts, "ccls": pick(rng, COORD_CLASSES), "kernel": kernel,
            "param": param, "width": width, "aseed": _aseed(rng)}


def mk_Gridding(rng, ishape, maxn):
    nd = int(rng.integers(1, 4))
    if ishape is None:
        pts = _shape(rng, int(pick(rng, [1, 1, 2])), 5)
        batch = _shape(rng, int(rng.integers(0, 3)), 3)
        ishape = batch + pts
    else:
        np_ = int(pick(rng, [1, 2])) if len(ishape) >= 2 else 1
        pts = list(ishape[-np_:])
        batch = list(ishape[:-np_])
    grid = _shape(rng, nd, maxn)
    kernel, param, width = _kernel_params(rng, nd)
    return {"op": "Gridding", "ishape": ishape, "oshape": batch + grid, "nd": nd, "pts": pts,
            "grid": grid, "ccls": pick(rng, COORD_CLASSES), "kernel": kernel, "param": param,
            "width": width, "aseed": _aseed(rng)}


def mk_Resize(rng, ishape, maxn):
    ishape = ishape or _shape(rng, int(rng.integers(1, 4)), maxn)
    oshape = [max(1, int(s + rng.integers(-3, 4))) for s in ishape]
    mode = pick(rng, ["none", "none", "both", "ishift", "oshift", "pad-overhang"])
    ishift = oshift = None
    if mode == "pad-overhang":
        # zero-padding on every axis, default input shift, and an explicit output shift that
        # lets the input overhang the end of the output (so part of it is cut off)
        oshape = [int(s + rng.integers(0, 4)) for s in ishape]
        oshift = [int(rng.integers(max(o - i, 0), o + 1)) for i, o in zip(ishape, oshape)]
        k = int(rng.integers(len(ishape)))
        oshift[k] = int(rng.integers(max(oshape[k] - ishape[k], 0) + 1, oshape[k] + 1)) \
            if ishape[k] > 0 else oshift[k]
        return {"op": "Resize", "ishape": ishape, "oshape": oshape, "ishift": None,
                "oshift": oshift}
    if mode in ("both", "ishift"):
        ishift = [int(rng.integers(0, i + 1)) for i in ishape]
    if mode in ("both", "oshift"):
        oshift = [int(rng.integers(0, o + 1)) for o in oshape]
    if mode in ("ishift", "oshift"):
        # a single explicit shift must leave a non-negative copy extent with the default one
        di = ishift or [max(i // 2 - o // 2, 0) for i, o in zip(ishape, oshape)]
        do = oshift or [max(o // 2 - i // 2, 0) for i, o in zip(ishape, oshape)]
        if any(min(i - si, o - so) < 0 for i, si, o, so in zip(ishape, di, oshape, do)):
            ishift = oshift = None
    return {"op": "Resize", "ishape": ishape, "oshape": oshape, "ishift": ishift,
            "oshift": oshift}


def mk_Flip(rng, ishape, maxn):
    ishape = ishape or _shape(rng, int(rng.integers(1, 4)), maxn)
    return {"op": "Flip", "ishape": ishape, "oshape": list(ishape),
            "axes": _axes_subset(rng, len(ishape))}


def mk_Downsample(rng, ishape, maxn):
    ishape = ishape or _shape(rng, int(rng.integers(1, 4)), maxn)
    factors = [int(rng.integers(1, 4)) for _ in ishape]
    shift = None if rng.random() < 0.4 else [int(rng.integers(0, min(i, f + 1))) for i, f in
                                             zip(ishape, factors)]
    sh = shift or [0] * len(ishape)
    oshape = [(i - s + f - 1) // f for i, f, s in zip(ishape, factors, sh)]
    return {"op": "Downsample", "ishape": ishape, "oshape": oshape, "factors": factors,
            "shift": shift}


def mk_Upsample(rng, ishape, maxn):
    ishape = ishape or _shape(rng, int(rng.integers(1, 4)), max(2, maxn // 2))
    factors = [int(rng.integers(1, 4)) for _ in ishape]
    shift = None if rng.random() < 0.4 else [int(rng.integers(0, f)) for f in factors]
    sh = shift or [0] * len(ishape)
    oshape = [(i - 1) * f + s + 1 + int(rng.integers(0, f)) for i, f, s in
              zip(ishape, factors, sh)]
    return {"op": "Upsample", "ishape": ishape, "oshape": oshape, "factors": factors,
            "shift": shift}


def mk_Circshift(rng, ishape, maxn):
    ishape = ishape or _shape(rng, int(rng.integers(1, 4)), maxn)
    nd = len(ishape)
    axes = _axes_subset(rng, nd)
    if axes is not None:
        axes = [int(a) for a in rng.permutation(axes)]
    k = nd if axes is None else len(axes)
    shift = [int(rng.integers(-2 * maxn, 2 * maxn + 1)) for _ in range(k)]
    d = {"op": "Circshift", "ishape": ishape, "oshape": list(ishape), "shift": shift,
         "axes": axes}
    if rng.random() < 0.2:
        # shifts read from a header as unsigned NumPy integers
        d["shift"] = [abs(s_) for s_ in shift]
        d["shift_dtype"] = pick(rng, ["uint8", "uint16", "uint64"])
    return d


def wavelet_coeff_shape(shape, wave, axes, level):
    """Shape of the coefficient array of a zero-padded-to-even, zero-mode wavedecn."""
    import warnings
    import pywt
    z = [((i + 1) // 2) * 2 for i in shape]
    with warnings.catch_warnings():
        warnings.simplefilter("ignore")
        c = pywt.wavedecn(np.zeros(z), wave, mode="zero", axes=axes, level=level)
        arr, _ = pywt.coeffs_to_array(c, axes=axes)
    return [int(v) for v in arr.shape]


def mk_Wavelet(rng, ishape, maxn):
    ishape = ishape or _shape(rng, int(rng.integers(1, 4)), maxn + 3)
    if len(ishape) > 3:
        return None
    ax = _axes_subset(rng, len(ishape))
    if ax is not None and rng.random() < 0.4:
        ax = [int(a) for a in rng.permutation(ax)]
    d = {"op": "Wavelet", "ishape": ishape, "oshape": None,
         "axes": ax, "wave": pick(rng, WAVES),
         "level": pick(rng, [None, None, 1, 2])}
    d["oshape"] = wavelet_coeff_shape(ishape, d["wave"], d["axes"], d["level"])
    return d


def mk_InverseWavelet(rng, ishape, maxn):
    if ishape is not None:
        return None
    img = _shape(rng, int(rng.integers(1, 4)), maxn + 3)
    d = {"op": "InverseWavelet", "ishape": None, "oshape": img,
         "axes": _axes_subset(rng, len(img)), "wave": pick(rng, WAVES),
         "level": pick(rng, [None, None, 1, 2])}
    d["ishape"] = wavelet_coeff_shape(img, d["wave"], d["axes"], d["level"])
    return d


def mk_Sum(rng, ishape, maxn):
    ishape = ishape or _shape(rng, int(rng.integers(2, 5)), _cap(maxn, min(maxn, 4), 9))
    nd = len(ishape)
    if nd < 2:
        return None
    # (every axis in about an eighth of the draws: the operator then has the 0-d output
    # shape [], and whatever is built on top of it works with 0-d arrays)
    k = nd if rng.random() < 0.125 else int(rng.integers(1, nd))
    ax = sorted(rng.choice(nd, size=k, replace=False).tolist())
    axes = [int(a - nd) if rng.random() < 0.4 else int(a) for a in ax]
    oshape = [ishape[i] for i in range(nd) if i not in ax]
    return {"op": "Sum", "ishape": ishape, "oshape": oshape, "axes": axes}


def mk_Tile(rng, ishape, maxn):
    ishape = ishape or _shape(rng, int(rng.integers(1, 3)), _cap(maxn, min(maxn, 4), 17))
    k = int(rng.integers(1, 3))
    nd = len(ishape) + k
    ax = sorted(rng.choice(nd, size=k, replace=False).tolist())
    oshape, it = [], iter(ishape)
    for d in range(nd):
        oshape.append(int(rng.integers(1, _cap(maxn, 4, 8))) if d in ax else int(next(it)))
    axes = [int(a - nd) if rng.random() < 0.4 else int(a) for a in ax]
    return {"op": "Tile", "ishape": ishape, "oshape": oshape, "axes": axes}


def _blocks(rng, N):
    b = [int(rng.integers(1, n + 1)) for n in N]
    s = [int(rng.integers(1, bb + 2)) for bb in b]
    nb = [(n - bb + ss) // ss for n, bb, ss in zip(N, b, s)]
    return b, s, nb


def mk_ArrayToBlocks(rng, ishape, maxn):
    if ishape is None:
        D = int(rng.integers(1, 4))
        ishape = _shape(rng, int(rng.integers(0, 3)), 3) + _shape(rng, D, maxn)
    else:
        D = int(rng.integers(1, min(3, len(ishape)) + 1))
    b, s, nb = _blocks(rng, ishape[-D:])
    return {"op": "ArrayToBlocks", "ishape": ishape,
            "oshape": list(ishape[:-D]) + nb + b, "blk": b, "strides": s}


def mk_BlocksToArray(rng, ishape, maxn):
    if ishape is not None:
        return None
    D = int(rng.integers(1, 4))
    oshape = _shape(rng, int(rng.integers(0, 3)), 3) + _shape(rng, D, maxn)
    b, s, nb = _blocks(rng, oshape[-D:])
    return {"op": "BlocksToArray", "oshape": oshape, "ishape": list(oshape[:-D]) + nb + b,
            "blk": b, "strides": s}


def mk_FiniteDifference(rng, ishape, maxn):
    ishape = ishape or _shape(rng, int(rng.integers(1, 4)), maxn)
    nd = len(ishape)
    axes = _axes_subset(rng, nd)
    k = nd if axes is None else len(axes)
    return {"op": "FiniteDifference", "ishape": ishape, "oshape": [k] + list(ishape),
            "axes": axes}


def mk_NUFFT(rng, ishape, maxn):
    if ishape is None:
        nd = int(rng.integers(1, 4))
        ishape = _shape(rng, int(rng.integers(0, 2)), _cap(maxn, 3, 6)) + _shape(
            rng, nd, _cap(maxn, [8, 6, 4], [40, 18, 9])[nd - 1])
    else:
        nd = int(rng.integers(1, min(3, len(ishape)) + 1))
    pts = _shape(rng, int(pick(rng, [1, 1, 2])), _cap(maxn, 5, 12))
    return {"op": "NUFFT", "ishape": ishape, "oshape": list(ishape[:-nd]) + pts, "nd": nd,
            "pts": pts, "ccls": pick(rng, ["inside", "inside", "outside", "ties", "dup"]),
            "oversamp": pick(rng, [1.25, 1.25, 1.5, 2]), "width": pick(rng, [4, 4, 3, 5, 6]),
            "toeplitz": False, "aseed": _aseed(rng)}


def mk_NUFFTAdjoint(rng, ishape, maxn):
    nd = int(rng.integers(1, 4))
    if ishape is None:
        pts = _shape(rng, int(pick(rng, [1, 1, 2])), _cap(maxn, 5, 12))
        batch = _shape(rng, int(rng.integers(0, 2)), _cap(maxn, 3, 6))
        ishape = batch + pts
    else:
        pts = list(ishape[-1:])
        batch = list(ishape[:-1])
    grid = _shape(rng, nd, _cap(maxn, [8, 6, 4], [40, 18, 9])[nd - 1])
    return {"op": "NUFFTAdjoint", "ishape": ishape, "oshape": batch + grid, "nd": nd,
            "pts": pts, "grid": grid,
            "ccls": pick(rng, ["inside", "inside", "outside", "ties", "dup"]),
            "oversamp": pick(rng, [1.25, 1.25, 1.5, 2]), "width": pick(rng, [4, 4, 3, 5, 6]),
            "aseed": _aseed(rng)}


def conv_out(m, n, s, mode):
    """Output extent of a strided convolution per axis, from the definition:
    full -> m+n-1 samples, valid -> |m-n|+1 samples, then every s-th."""
    if mode == "full":
        L = [a + b - 1 for a, b in zip(m, n)]
    else:
        L = [abs(a - b) + 1 for a, b in zip(m, n)]
    return [(l + ss - 1) // ss for l, ss in zip(L, s)]


def _conv_shapes(rng, maxn, fixed_m=None, fixed_n=None):
    D = len(fixed_m) if fixed_m is not None else len(fixed_n) if fixed_n is not None \
        else int(rng.integers(1, 4))
    lim = [_cap(maxn, maxn, 48), _cap(maxn, min(maxn, 5), 12), _cap(maxn, min(maxn, 4), 6)][D - 1]
    mode = pick(rng, ["full", "valid"])
    rel = pick(rng, ["shorter", "shorter", "equal", "longer"])
    m = list(fixed_m) if fixed_m is not None else _shape(rng, D, lim)
    if fixed_n is not None:
        n = list(fixed_n)
        if mode == "valid" and not (all(a >= b for a, b in zip(m, n))
                                    or all(a < b for a, b in zip(m, n))):
            mode = "full"
    elif mode == "full":
        n = _shape(rng, D, lim)
    elif rel == "shorter":
        n = [int(rng.integers(1, a + 1)) for a in m]
    elif rel == "equal":
        n = list(m)
    else:
        n = [int(a + rng.integers(1, 3)) for a in m]
    strides = None if rng.random() < 0.5 else [int(rng.integers(1, 4)) for _ in range(D)]
    return D, m, n, mode, strides


def mk_ConvolveData(rng, ishape, maxn):
    multi = bool(rng.random() < 0.5)
    if ishape is None:
        D, m, n, mode, strides = _conv_shapes(rng, maxn)
        batch = _shape(rng, int(rng.integers(0, 2)), 3)
        ci = int(rng.integers(1, _cap(maxn, 4, 7)))
        ishape = batch + ([ci] if multi else []) + m
    else:
        need = 2 if multi else 1
        if len(ishape) < need:
            multi = False
        D = int(rng.integers(1, min(3, len(ishape) - (1 if multi else 0)) + 1))
        m = list(ishape[-D:])
        D, m, n, mode, strides = _conv_shapes(rng, maxn, fixed_m=m)
        batch = list(ishape[:-D - (1 if multi else 0)])
        ci = ishape[-D - 1] if multi else 1
    co = int(rng.integers(1, _cap(maxn, 4, 7)))
    p = conv_out(m, n, strides or [1] * D, mode)
    fshape = ([co, ci] if multi else []) + n
    return {"op": "ConvolveData", "ishape": ishape,
            "oshape": batch + ([co] if multi else []) + p, "fshape": fshape, "mode": mode,
            "strides": strides, "multi": multi, "aseed": _aseed(rng),
            "freal": bool(rng.random() < 0.2)}


def mk_ConvolveFilter(rng, ishape, maxn):
    multi = bool(rng.random() < 0.5)
    if ishape is None:
        D, m, n, mode, strides = _conv_shapes(rng, maxn)
        co, ci = int(rng.integers(1, _cap(maxn, 4, 7))), int(rng.integers(1, _cap(maxn, 4, 7)))
        ishape = ([co, ci] if multi else []) + n
    else:
        if multi and len(ishape) < 3:
            multi = False
        if not multi and len(ishape) > 3:
            return None
        if multi and len(ishape) > 5:
            return None
        n = list(ishape[2:]) if multi else list(ishape)
        D, m, n, mode, strides = _conv_shapes(rng, maxn, fixed_n=n)
        co, ci = (ishape[0], ishape[1]) if multi else (1, 1)
    batch = _shape(rng, int(rng.integers(0, 2)), 3)
    dshape = batch + ([ci] if multi else []) + m
    p = conv_out(m, n, strides or [1] * D, mode)
    return {"op": "ConvolveFilter", "ishape": ishape,
            "oshape": batch + ([co] if multi else []) + p, "dshape": dshape, "mode": mode,
            "strides": strides, "multi": multi, "aseed": _aseed(rng),
            "freal": bool(rng.random() < 0.2)}


def _rand_index(rng, shape):
    idx = []
    for n in shape:
        r = rng.random()
        if r < 0.15 and len(shape) > 1:
            idx.append(int(rng.integers(-n, n)))
        elif r < 0.3:
            idx.append(["s", None, None, None])
        else:
            step = int(pick(rng, [1, 1, 2, 3, -1, -2]))
            a = int(rng.integers(0, n))
            b = int(rng.integers(a + 1, n + 1))
            if step > 0:
                idx.append(["s", a, b, step])
            else:
                idx.append(["s", b - 1, (a - 1) if a > 0 else None, step])
    if rng.random() < 0.2 and len(idx) > 1:
        idx = idx[:int(rng.integers(1, len(idx)))]
    return idx


def decode_index(idx):
    out = []
    for i in idx:
        if isinstance(i, (list, tuple)):
            out.append(slice(i[1], i[2], i[3]))
        else:
            out.append(int(i))
    return tuple(out)


def mk_Slice(rng, ishape, maxn):
    ishape = ishape or _shape(rng, int(rng.integers(1, 4)), maxn)
    for _ in range(10):
        idx = _rand_index(rng, ishape)
        osh = list(np.empty(ishape)[decode_index(idx)].shape)
        if osh and all(o > 0 for o in osh):
            return {"op": "Slice", "ishape": ishape, "oshape": osh, "idx": idx}
    return None


def mk_Embed(rng, ishape, maxn):
    if ishape is not None:
        return None
    oshape = _shape(rng, int(rng.integers(1, 4)), maxn)
    for _ in range(10):
        idx = _rand_index(rng, oshape)
        ish = list(np.empty(oshape)[decode_index(idx)].shape)
        if ish and all(o > 0 for o in ish):
            return {"op": "Embed", "ishape": ish, "oshape": oshape, "idx": idx}
    return None


def mk_Sense(rng, ishape, maxn):
    if ishape is not None:
        return None
    nd = int(pick(rng, [2, 2, 3]))
    img = _shape(rng, nd, _cap(maxn, 5, 20) if nd == 2 else _cap(maxn, 4, 9), minn=2)
    nc = int(rng.integers(1, _cap(maxn, 5, 10)))
    noncart = bool(rng.random() < 0.5)
    pts = _shape(rng, int(pick(rng, [1, 2])), _cap(maxn, 5, 12)) if noncart else None
    ksp = ([nc] + pts) if noncart else ([nc] + img)
    wkind = pick(rng, ["none", "kspace", "kspace", "percoil"])
    batch = None if rng.random() < 0.4 else int(rng.integers(1, nc + 1))
    return {"op": "Sense", "ishape": img, "oshape": ksp, "nc": nc, "noncart": noncart,
            "pts": pts, "ccls": pick(rng, ["inside", "inside", "outside"]), "wkind": wkind,
            "batch": batch, "aseed": _aseed(rng)}


def mk_ConvSense(rng, ishape, maxn):
    if ishape is not None:
        return None
    nd = int(pick(rng, [1, 2, 2]))
    img_ker = _shape(rng, nd, _cap(maxn, 5, 12), minn=2)
    mps_ker = [int(rng.integers(1, a + 1)) for a in img_ker]
    nc = int(rng.integers(1, _cap(maxn, 4, 8)))
    p = [a - b + 1 for a, b in zip(img_ker, mps_ker)]
    noncart = bool(rng.random() < 0.4)
    pts = _shape(rng, 1, 6) if noncart else None
    weights = bool(rng.random() < 0.4)
    return {"op": "ConvSense", "ishape": img_ker, "oshape": [nc] + (pts if noncart else p),
            "nc": nc, "mps_ker": mps_ker, "grd": p, "noncart": noncart, "pts": pts,
            "weights": weights, "aseed": _aseed(rng)}


def mk_ConvImage(rng, ishape, maxn):
    if ishape is not None:
        return None
    nd = int(pick(rng, [1, 2, 2]))
    img_ker = _shape(rng, nd, _cap(maxn, 5, 12), minn=2)
    mps_ker = [int(rng.integers(1, a + 1)) for a in img_ker]
    nc = int(rng.integers(1, _cap(maxn, 4, 8)))
    p = [a - b + 1 for a, b in zip(img_ker, mps_ker)]
    noncart = bool(rng.random() < 0.4)
    pts = _shape(rng, 1, 6) if noncart else None
    weights = bool(rng.random() < 0.4)
    return {"op": "ConvImage", "ishape": [nc] + mps_ker,
            "oshape": [nc] + (pts if noncart else p), "nc": nc, "img_ker": img_ker, "grd": p,
            "noncart": noncart, "pts": pts, "weights": weights, "aseed": _aseed(rng)}


def mk_Ptx(rng, ishape, maxn):
    if ishape is not None:
        return None
    three = bool(rng.random() < 0.3)
    dim = _shape(rng, 3 if three else 2, _cap(maxn, 3, 5) if three else _cap(maxn, 4, 9), minn=2)
    nc = int(rng.integers(1, _cap(maxn, 4, 8)))
    nt = int(rng.integers(1, _cap(maxn, 7, 40)))
    return {"op": "PtxSpatialExplicit", "ishape": [nc, nt], "oshape": dim, "nc": nc, "nt": nt,
            "b0": bool(rng.random() < 0.5), "aseed": _aseed(rng)}


MAKERS = {
    "Identity": mk_Identity, "Reshape": mk_Reshape, "Transpose": mk_Transpose,
    "FFT": _mk_fft("FFT"), "IFFT": _mk_fft("IFFT"), "MatMul": mk_MatMul,
    "RightMatMul": mk_RightMatMul, "Multiply": mk_Multiply, "Interpolate": mk_Interpolate,
    "Gridding": mk_Gridding, "Resize": mk_Resize, "Flip": mk_Flip,
    "Downsample": mk_Downsample, "Upsample": mk_Upsample, "Circshift": mk_Circshift,
    "Wavelet": mk_Wavelet, "InverseWavelet": mk_InverseWavelet, "Sum": mk_Sum,
    "Tile": mk_Tile, "ArrayToBlocks": mk_ArrayToBlocks, "BlocksToArray": mk_BlocksToArray,
    "FiniteDifference": mk_FiniteDifference, "NUFFT": mk_NUFFT,
    "NUFFTAdjoint": mk_NUFFTAdjoint, "ConvolveData": mk_ConvolveData,
    "ConvolveFilter": mk_ConvolveFilter, "Slice": mk_Slice, "Embed": mk_Embed,
    "Sense": mk_Sense, "ConvSense": mk_ConvSense, "ConvImage": mk_ConvImage,
    "PtxSpatialExplicit": mk_Ptx, "ToDevice": mk_ToDevice, "AllReduce": mk_AllReduce,
}
LEAF_KINDS = list(MAKERS)
# kinds that capture parameter arrays (multiplier, matrix, filter, coil maps, weights)
ARRAY_KINDS = ["Multiply", "MatMul", "RightMatMul", "ConvolveData", "ConvolveFilter", "Sense",
               "ConvSense", "ConvImage", "PtxSpatialExplicit"]


def gen_nested_stack(rng):
    """A stack inside a stack (Hstack / Vstack / Diag), every axis combination that fits -
    in particular an inner stack along one axis inside an outer flattening one - optionally
    wrapped in .H (the adjoint of a nested Vstack is a nested Hstack and vice versa)."""
    nd = int(rng.integers(1, 4))
    s = [int(rng.integers(2, 4)) for _ in range(nd)]
    A, B, C = (gen_endo(rng, s, 4) for _ in range(3))
    kind = pick(rng, ["Vstack", "Hstack", "Diag"])
    ia = pick(rng, [None] + list(range(-nd, nd)))
    oa = pick(rng, [None, None, ia])

    def cat(shapes, ax):
        if ax is None:
            return [sum(_prod(t) for t in shapes)]
        t = list(shapes[0])
        t[ax] = sum(u[ax] for u in shapes)
        return t

    def stack(parts, ax):
        ish = [p["ishape"] for p in parts]
        osh = [p["oshape"] for p in parts]
        if kind == "Vstack":
            return {"op": "Vstack", "parts": parts, "axis": ax, "ishape": list(ish[0]),
                    "oshape": cat(osh, ax)}
        if kind == "Hstack":
            return {"op": "Hstack", "parts": parts, "axis": ax, "ishape": cat(ish, ax),
                    "oshape": list(osh[0])}
        return {"op": "Diag", "parts": parts, "iaxis": ax, "oaxis": ax, "ishape": cat(ish, ax),
                "oshape": cat(osh, ax)}
    inner = stack([A, B], ia)
    order = [inner, C] if rng.random() < 0.5 else [C, inner]
    if oa is not None and oa != ia:
        oa = None
    if oa is not None and ia is None:
        oa = None
    if oa is None and kind == "Vstack":
        pass                                    # parts share the input shape s: always fits
    d = stack(order, oa)
    if kind == "Hstack" and oa is None:
        pass                                    # parts share the output shape s
    if rng.random() < 0.5:
        d = {"op": "H", "A": d, "ishape": d["oshape"], "oshape": d["ishape"]}
    return d


def gen_struct_leaf(rng, kind, maxn=6):
    """A leaf of an array-capturing kind whose parameter arrays are *structured* (see _arr:
    unit modulus, +-1 / +-i, all ones, constant, one-hot), by moving its seed into the
    matching residue class."""
    for _ in range(40):
        d = MAKERS[kind](rng, None, maxn)
        if d is None or "aseed" not in d:
            continue
        if kind == "Multiply" and d.get("mkind") != "array":
            continue
        d["aseed"] = int(d["aseed"] - d["aseed"] % 11 + int(rng.integers(1, 6)))
        return d
    return None
# kinds that can be generated for a prescribed input shape (used inside trees)
ADAPTABLE = ["Identity", "ToDevice", "AllReduce", "Reshape", "Transpose", "FFT", "IFFT", "MatMul", "RightMatMul",
             "Multiply", "Interpolate", "Gridding", "Resize", "Flip", "Downsample",
             "Upsample", "Circshift", "Sum", "Tile", "ArrayToBlocks", "FiniteDifference",
             "NUFFT", "ConvolveData", "ConvolveFilter", "Slice"]
# shape-preserving kinds (endomorphisms) for Add partners
ENDO = ["Identity", "FFT", "IFFT", "Flip", "Circshift", "MultiplyFull", "TransposeId"]


def _leaf0(rng, endo=False):
    """Leaf for the 0-d input shape [] (what a Sum over every axis hands on)."""
    k = pick(rng, ["Identity", "Multiply", "Multiply"] + ([] if endo else ["Reshape", "Tile"]))
    if k == "Identity":
        return {"op": "Identity", "ishape": [], "oshape": []}
    if k == "Multiply":
        return {"op": "Multiply", "ishape": [], "oshape": [], "conj": bool(rng.random() < 0.4),
                "mkind": pick(rng, ["pyreal", "pycomplex", "npfloat", "npcomplex", "pyint"]),
                "aseed": _aseed(rng)}
    if k == "Reshape":
        return {"op": "Reshape", "ishape": [], "oshape": [1]}
    n = int(rng.integers(1, 4))
    return {"op": "Tile", "ishape": [], "oshape": [n], "axes": [pick(rng, [0, -1])]}


def gen_leaf(rng, kind=None, ishape=None, maxn=6):
    if ishape is not None and len(ishape) == 0:
        return _leaf0(rng) if kind is None else None
    for _ in range(30):
        k = kind or pick(rng, ADAPTABLE if ishape is not None else LEAF_KINDS)
        d = MAKERS[k](rng, list(ishape) if ishape is not None else None, maxn)
        if d is not None:
            if rng.random() < 0.08 and k not in ("Sense", "ConvSense", "ConvImage",
                                                 "PtxSpatialExplicit"):
                d = {"op": "Conj", "A": d, "ishape": d["ishape"], "oshape": d["oshape"]}
            return d
        if kind is not None and ishape is not None:
            return None
    return mk_Identity(rng, ishape, maxn)


def gen_endo(rng, shape, maxn=6):
    if len(shape) == 0:
        return _leaf0(rng, endo=True)
    k = pick(rng, ENDO)
    if k == "MultiplyFull":
        return {"op": "Multiply", "ishape": list(shape), "oshape": list(shape),
                "mkind": "array", "mshape": list(shape), "mreal": False,
                "conj": bool(rng.random() < 0.5), "aseed": _aseed(rng)}
    if k == "TransposeId":
        return {"op": "Transpose", "ishape": list(shape), "oshape": list(shape),
                "axes": list(range(len(shape)))}
    return MAKERS[k](rng, list(shape), maxn)


def _known_oshape(d):
    return d["oshape"] is not None and d["ishape"] is not None


def _size_ok(d, cap=400):
    return _prod(d["oshape"]) <= cap and _prod(d["ishape"]) <= cap


def gen_tree(rng, depth, ishape=None, maxn=5, cap=400):
    """Random expression tree with the given input shape (or a free one)."""
    for _ in range(20):
        d = _gen_tree(rng, depth, ishape, maxn)
        if d is not None and _known_oshape(d) and _size_ok(d, cap):
            return d
    return mk_Identity(rng, ishape, maxn)


TREE_OPS = ["Compose", "Compose", "Add", "Sub", "Neg", "ScaleL", "ScaleR", "Hstack",
            "Vstack", "Diag", "Conj", "H", "N", "leaf"]


def _scalar(rng):
    k = pick(rng, ["pyreal", "pycomplex", "npcomplex", "pyint"])
    if k == "pyreal":
        return {"k": k, "re": float(np.round(rng.uniform(-2, 2), 3)), "im": 0.0}
    if k == "pyint":
        return {"k": k, "re": float(pick(rng, [-2, -1, 2, 3])), "im": 0.0}
    return {"k": k, "re": float(np.round(rng.uniform(-2, 2), 3)),
            "im": float(np.round(rng.uniform(-2, 2), 3))}


def scalar_value(s):
    if s["k"] == "pyreal":
        return float(s["re"])
    if s["k"] == "pyint":
        return int(s["re"])
    if s["k"] == "npcomplex":
        return np.complex128(complex(s["re"], s["im"]))
    return complex(s["re"], s["im"])


def _leaf_known(rng, ishape, maxn):
    for _ in range(10):
        d = gen_leaf(rng, None, ishape, maxn)
        if d is not None and _known_oshape(d) and _size_ok(d):
            return d
    if ishape is not None and len(ishape) == 0:
        return {"op": "Identity", "ishape": [], "oshape": []}
    return mk_Identity(rng, ishape, maxn)


def _adapter(rng, to_shape, from_shape):
    """Operator mapping from_shape -> to_shape (Resize, or Reshape when sizes agree)."""
    if list(to_shape) == list(from_shape):
        return None
    if len(to_shape) == len(from_shape):
        return {"op": "Resize", "ishape": list(from_shape), "oshape": list(to_shape),
                "ishift": None, "oshift": None}
    if _prod(to_shape) == _prod(from_shape):
        return {"op": "Reshape", "ishape": list(from_shape), "oshape": list(to_shape)}
    flat = {"op": "Reshape", "ishape": list(from_shape), "oshape": [_prod(from_shape)]}
    rs = {"op": "Resize", "ishape": [_prod(from_shape)], "oshape": [_prod(to_shape)],
          "ishift": None, "oshift": None}
    un = {"op": "Reshape", "ishape": [_prod(to_shape)], "oshape": list(to_shape)}
    return {"op": "Compose", "parts": [un, rs, flat], "ishape": list(from_shape),
            "oshape": list(to_shape)}


def _compose(parts):
    parts = [p for p in parts if p is not None]
    if len(parts) == 1:
        return parts[0]
    return {"op": "Compose", "parts": parts, "ishape": parts[-1]["ishape"],
            "oshape": parts[0]["oshape"]}


def _vary(rng, shape, axis):
    s = list(shape)
    s[axis] = max(1, int(s[axis] + rng.integers(-2, 3)))
    return s


def _gen_tree(rng, depth, ishape, maxn):
    if depth <= 0:
        return _leaf_known(rng, ishape, maxn)
    op = pick(rng, TREE_OPS)
    sub = lambda ish: _gen_tree(rng, depth - 1, ish, maxn)   # noqa: E731
    if op == "leaf":
        return _leaf_known(rng, ishape, maxn)
    if op == "Compose":
        B = sub(ishape)
        if B is None or not _known_oshape(B):
            return None
        A = sub(B["oshape"])
        if A is None or not _known_oshape(A):
            return None
        parts = [A, B]
        if rng.random() < 0.3:
            C = sub(A["oshape"])
            if C is not None and _known_oshape(C):
                parts = [C, A, B]
        return {"op": "Compose", "parts": parts, "ishape": B["ishape"],
                "oshape": parts[0]["oshape"]}
    if op in ("Add", "Sub"):
        A = sub(ishape)
        if A is None or not _known_oshape(A):
            return None
        E = gen_endo(rng, A["oshape"], maxn)
        A2 = sub(A["ishape"])
        if A2 is not None and _known_oshape(A2) and rng.random() < 0.6:
            ad = _adapter(rng, A["oshape"], A2["oshape"])
            B = _compose([ad, A2])
        else:
            E2 = gen_endo(rng, A["ishape"], maxn)
            B = _compose([E, A, E2]) if rng.random() < 0.5 else \
                _compose([E, A])
        parts = [A, B]
        if op == "Add" and rng.random() < 0.25:
            parts.append(_compose([gen_endo(rng, A["oshape"], maxn), A]))
        return {"op": op, "parts": parts, "ishape": A["ishape"], "oshape": A["oshape"]}
    if op == "H":
        A = sub(None)
        if A is None or not _known_oshape(A):
            return None
        d = {"op": "H", "A": A, "ishape": A["oshape"], "oshape": A["ishape"]}
        if ishape is not None and list(ishape) != list(d["ishape"]):
            d = _compose([d, _adapter(rng, d["ishape"], ishape)])
        return d
    if op in ("Neg", "Conj", "N"):
        A = sub(ishape)
        if A is None or not _known_oshape(A):
            return None
        if op == "N":
            return {"op": "N", "A": A, "ishape": A["ishape"], "oshape": A["ishape"]}
        return {"op": op, "A": A, "ishape": A["ishape"], "oshape": A["oshape"]}
    if op in ("ScaleL", "ScaleR"):
        A = sub(ishape)
        if A is None or not _known_oshape(A):
            return None
        return {"op": op, "A": A, "a": _scalar(rng), "ishape": A["ishape"],
                "oshape": A["oshape"]}
    if op == "Hstack":
        return _gen_hstack(rng, depth, ishape, maxn)
    if op == "Vstack":
        return _gen_vstack(rng, depth, ishape, maxn)
    if op == "Diag":
        return _gen_diag(rng, depth, ishape, maxn)
    return None


def _pick_axis(rng, ndim):
    r = rng.random()
    if r < 0.3 or ndim == 0:
        return None
    a = int(rng.integers(0, ndim))
    return a - ndim if rng.random() < 0.5 else a


def _gen_hstack(rng, depth, ishape, maxn):
    # parts A_i : ishape_i -> O ; requested overall ishape is met with an adapter in front
    n = int(rng.integers(2, 4))
    A0 = _gen_tree(rng, depth - 1, None, maxn)
    if A0 is None or not _known_oshape(A0):
        return None
    O = A0["oshape"]
    axis = _pick_axis(rng, len(A0["ishape"]))
    parts = [A0]
    for i in range(1, n):
        if axis is None:
            Ai = _gen_tree(rng, depth - 1, None, maxn)
        else:
            Ai = _gen_tree(rng, depth - 1, _vary(rng, A0["ishape"], axis), maxn)
        if Ai is None or not _known_oshape(Ai):
            return None
        parts.append(_compose([_adapter(rng, O, Ai["oshape"]), Ai]))
    if axis is None:
        ish = [sum(_prod(p["ishape"]) for p in parts)]
    else:
        ish = list(A0["ishape"])
        ish[axis] = sum(p["ishape"][axis] for p in parts)
    d = {"op": "Hstack", "parts": parts, "axis": axis, "ishape": ish, "oshape": list(O)}
    if ishape is not None and list(ishape) != ish:
        d = _compose([d, _adapter(rng, ish, ishape)])
    return d


def _gen_vstack(rng, depth, ishape, maxn):
    n = int(rng.integers(2, 4))
    A0 = _gen_tree(rng, depth - 1, ishape, maxn)
    if A0 is None or not _known_oshape(A0):
        return None
    I = A0["ishape"]
    axis = _pick_axis(rng, len(A0["oshape"]))
    parts = [A0]
    for i in range(1, n):
        Ai = _gen_tree(rng, depth - 1, I, maxn)
        if Ai is None or not _known_oshape(Ai):
            return None
        if axis is not None:
            tgt = _vary(rng, A0["oshape"], axis)
            Ai = _compose([_adapter(rng, tgt, Ai["oshape"]), Ai])
        parts.append(Ai)
    if axis is None:
        osh = [sum(_prod(p["oshape"]) for p in parts)]
    else:
        osh = list(A0["oshape"])
        osh[axis] = sum(p["oshape"][axis] for p in parts)
    return {"op": "Vstack", "parts": parts, "axis": axis, "ishape": list(I), "oshape": osh}


def _gen_diag(rng, depth, ishape, maxn):
    n = int(rng.integers(2, 4))
    A0 = _gen_tree(rng, depth - 1, None, maxn)
    if A0 is None or not _known_oshape(A0):
        return None
    iaxis = _pick_axis(rng, len(A0["ishape"]))
    oaxis = _pick_axis(rng, len(A0["oshape"]))
    parts = [A0]
    for i in range(1, n):
        ish = None if iaxis is None else _vary(rng, A0["ishape"], iaxis)
        Ai = _gen_tree(rng, depth - 1, ish, maxn)
        if Ai is None or not _known_oshape(Ai):
            return None
        if iaxis is not None and list(Ai["ishape"]) != list(ish):
            return None
        if oaxis is not None:
            tgt = _vary(rng, A0["oshape"], oaxis)
            Ai = _compose([_adapter(rng, tgt, Ai["oshape"]), Ai])
        parts.append(Ai)
    if iaxis is None:
        ish = [sum(_prod(p["ishape"]) for p in parts)]
    else:
        ish = list(A0["ishape"])
        ish[iaxis] = sum(p["ishape"][iaxis] for p in parts)
    if oaxis is None:
        osh = [sum(_prod(p["oshape"]) for p in parts)]
    else:
        osh = list(A0["oshape"])
        osh[oaxis] = sum(p["oshape"][oaxis] for p in parts)
    d = {"op": "Diag", "parts": parts, "iaxis": iaxis, "oaxis": oaxis, "ishape": ish,
         "oshape": osh}
    if ishape is not None and list(ishape) != ish:
        d = _compose([d, _adapter(rng, ish, ishape)])
    return d


# ---------------------------------------------------- construction history --

def _walk_leaves(d):
    if "parts" in d:
        for p in d["parts"]:
            yield from _walk_leaves(p)
    elif "A" in d and isinstance(d["A"], dict):
        yield from _walk_leaves(d["A"])
    else:
        yield d


SIBLING_KINDS = ("FFT", "IFFT", "Flip", "Sum", "Wavelet", "InverseWavelet", "Circshift")


def prime_siblings(desc):
    """Build and use "sibling" operators before the operator under test is built: same kind,
    geometry and parameters, with the axes listed in another order or spelling.  Anything the
    library keeps per geometry outside the operator object (module-level memos, plans) is
    then filled by another configuration first - each operator must still be right when it is
    not the first of its geometry in the process.  Returns the number of siblings used."""
    n = 0
    for leaf in _walk_leaves(desc):
        ax = leaf.get("axes")
        if leaf["op"] not in SIBLING_KINDS or not isinstance(ax, (list, tuple)) or not ax:
            continue
        shape = leaf["oshape"] if leaf["op"] == "InverseWavelet" else leaf["ishape"]
        nd = len(shape)
        variants = []
        if len(ax) >= 2:
            variants.append(list(ax)[::-1])
        variants.append([int(a) - nd if a >= 0 else int(a) + nd for a in ax])
        for v in variants:
            sib = dict(leaf, axes=v)
            if leaf["op"] == "Circshift" and v == list(ax)[::-1]:
                sib["shift"] = list(leaf["shift"])[::-1]
            try:
                S = build(sib)
                S.H(S(np.ones(S.ishape, complex)))
                n += 1
            except Exception:
                pass
    return n


# ------------------------------------------------------------------ build --

def leaf_arrays(d):
    """Arrays a leaf captures, as a dict (also used by oracles)."""
    op = d["op"]
    out = {}
    if op in ("MatMul", "RightMatMul"):
        out["mat"] = _arr(d, "mat", d["mshape"], "real" if d.get("mreal") else "complex")
    elif op == "Multiply" and d["mkind"] == "array":
        out["mult"] = _arr(d, "mult", d["mshape"], "real" if d.get("mreal") else "complex")
    elif op in ("Interpolate", "NUFFT"):
        grid = d["ishape"][-d["nd"]:]
        out["coord"] = make_coord(d["aseed"], d["pts"], grid, d["ccls"])
    elif op in ("Gridding", "NUFFTAdjoint"):
        out["coord"] = make_coord(d["aseed"], d["pts"], d["grid"], d["ccls"])
    elif op == "ConvolveData":
        out["filt"] = _arr(d, "filt", d["fshape"], "real" if d.get("freal") else "complex")
    elif op == "ConvolveFilter":
        out["data"] = _arr(d, "data", d["dshape"], "real" if d.get("freal") else "complex")
    elif op == "Sense":
        img = d["ishape"]
        out["mps"] = _arr(d, "mps", [d["nc"]] + img)
        if d["noncart"]:
            out["coord"] = make_coord(d["aseed"], d["pts"], img, d["ccls"])
        if d["wkind"] == "kspace":
            out["weights"] = _arr(d, "w", d["oshape"][1:], "pos")
        elif d["wkind"] == "percoil":
            out["weights"] = _arr(d, "w", d["oshape"], "pos")
    elif op == "ConvSense":
        out["mps_ker"] = _arr(d, "mk", [d["nc"]] + d["mps_ker"])
        if d["noncart"]:
            out["coord"] = make_coord(d["aseed"], d["pts"], d["grd"], "inside")
        if d["weights"]:
            out["weights"] = _arr(d, "w", d["oshape"][1:], "pos")
    elif op == "ConvImage":
        out["img_ker"] = _arr(d, "ik", d["img_ker"])
        if d["noncart"]:
            out["coord"] = make_coord(d["aseed"], d["pts"], d["grd"], "inside")
        if d["weights"]:
            out["weights"] = _arr(d, "w", d["oshape"][1:], "pos")
    elif op == "PtxSpatialExplicit":
        dim = d["oshape"]
        out["sens"] = _arr(d, "sens", [d["nc"]] + dim)
        out["coord"] = _arr(d, "coord", [d["nt"], len(dim)], "real")
        if d["b0"]:
            out["b0"] = _arr(d, "b0", dim, "real") * 10
    return out


def multiply_value(d):
    k = d["mkind"]
    rng = np.random.default_rng([d["aseed"], 99])
    re, im = float(np.round(rng.uniform(-2, 2), 3)), float(np.round(rng.uniform(-2, 2), 3))
    if k == "array":
        return leaf_arrays(d)["mult"]
    if k == "pyreal":
        return re
    if k == "pyint":
        return int(pick(rng, [-2, 2, 3]))
    if k == "pycomplex":
        return complex(re, im)
    if k == "npfloat":
        return np.float64(re)
    if k == "npcomplex":
        return np.complex128(complex(re, im))
    if k == "one":
        return 1
    raise ValueError(k)


def _positional(d):
    """Deterministic per description: call the constructor with positional arguments (in the
    documented order) instead of keywords."""
    return (sum(map(int, d.get("ishape", []))) + sum(map(int, d.get("oshape", [])))
            + len(d.get("parts", []))) % 2 == 0


def build(d):
    """Description -> real sigpy operator (raises whatever the constructor raises)."""
    import sigpy as sp
    import sigpy.mri  # noqa: F401
    L = sp.linop
    op = d["op"]
    arr = leaf_arrays(d) if "aseed" in d else {}
    if op == "Identity":
        return L.Identity(d["ishape"])
    if op == "ToDevice":
        return L.ToDevice(d["ishape"], sp.cpu_device, sp.cpu_device)
    if op == "AllReduce":
        return L.AllReduce(d["ishape"], sp.Communicator(), in_place=d["in_place"])
    if op == "Reshape":
        return L.Reshape(d["oshape"], d["ishape"])
    if op == "Transpose":
        return L.Transpose(d["ishape"], axes=None if d["axes"] is None else tuple(d["axes"]))
    if op in ("FFT", "IFFT"):
        return getattr(L, op)(d["ishape"], axes=d["axes"], center=d["center"])
    if op in ("MatMul", "RightMatMul"):
        return getattr(L, op)(d["ishape"], arr["mat"], adjoint=d["adjoint"])
    if op == "Multiply":
        return L.Multiply(d["ishape"], multiply_value(d), conj=d["conj"])
    if op == "Interpolate":
        return L.Interpolate(d["ishape"], arr["coord"], kernel=d["kernel"], width=d["width"],
                             param=d["param"])
    if op == "Gridding":
        return L.Gridding(d["oshape"], arr["coord"], kernel=d["kernel"], width=d["width"],
                          param=d["param"])
    if op == "Resize":
        return L.Resize(d["oshape"], d["ishape"], ishift=d["ishift"], oshift=d["oshift"])
    if op == "Flip":
        return L.Flip(d["ishape"], axes=d["axes"])
    if op == "Downsample":
        return L.Downsample(d["ishape"], d["factors"], shift=d["shift"])
    if op == "Upsample":
        return L.Upsample(d["oshape"], d["factors"], shift=d["shift"])
    if op == "Circshift":
        sh_ = d["shift"] if not d.get("shift_dtype") else np.array(d["shift"],
                                                                   dtype=d["shift_dtype"])
        return L.Circshift(d["ishape"], sh_, axes=d["axes"])
    if op == "Wavelet":
        return L.Wavelet(d["ishape"], axes=d["axes"], wave_name=d["wave"], level=d["level"])
    if op == "InverseWavelet":
        return L.InverseWavelet(d["oshape"], axes=d["axes"], wave_name=d["wave"],
                                level=d["level"])
    if op == "Sum":
        return L.Sum(d["ishape"], tuple(d["axes"]))
    if op == "Tile":
        return L.Tile(d["oshape"], tuple(d["axes"]))
    if op == "ArrayToBlocks":
        return L.ArrayToBlocks(d["ishape"], d["blk"], d["strides"])
    if op == "BlocksToArray":
        return L.BlocksToArray(d["oshape"], d["blk"], d["strides"])
    if op == "FiniteDifference":
        return L.FiniteDifference(d["ishape"], axes=d["axes"])
    if op == "NUFFT":
        return L.NUFFT(d["ishape"], arr["coord"], oversamp=d["oversamp"], width=d["width"],
                       toeplitz=d.get("toeplitz", False))
    if op == "NUFFTAdjoint":
        return L.NUFFTAdjoint(d["oshape"], arr["coord"], oversamp=d["oversamp"],
                              width=d["width"])
    if op == "ConvolveData":
        return L.ConvolveData(d["ishape"], arr["filt"], mode=d["mode"], strides=d["strides"],
                              multi_channel=d["multi"])
    if op == "ConvolveFilter":
        return L.ConvolveFilter(d["ishape"], arr["data"], mode=d["mode"],
                                strides=d["strides"], multi_channel=d["multi"])
    if op == "Slice":
        return L.Slice(d["ishape"], decode_index(d["idx"]))
    if op == "Embed":
        return L.Embed(d["oshape"], decode_index(d["idx"]))
    if op == "Sense":
        return sp.mri.linop.Sense(arr["mps"], coord=arr.get("coord"),
                                  weights=arr.get("weights"), coil_batch_size=d["batch"])
    if op == "ConvSense":
        return sp.mri.linop.ConvSense(d["ishape"], arr["mps_ker"], coord=arr.get("coord"),
                                      weights=arr.get("weights"),
                                      grd_shape=d["grd"] if d["noncart"] else None)
    if op == "ConvImage":
        return sp.mri.linop.ConvImage(d["ishape"], arr["img_ker"], coord=arr.get("coord"),
                                      weights=arr.get("weights"),
                                      grd_shape=d["grd"] if d["noncart"] else None)
    if op == "PtxSpatialExplicit":
        import sigpy.mri.rf as rf
        return rf.linop.PtxSpatialExplicit(arr["sens"], arr["coord"], 4e-6, d["oshape"],
                                           b0=arr.get("b0"))
    # ---- algebra
    if op == "Conj":
        return L.Conj(build(d["A"]))
    if op == "H":
        return build(d["A"]).H
    if op == "N":
        return build(d["A"]).N
    if op == "Neg":
        return -build(d["A"])
    if op == "ScaleL":
        return scalar_value(d["a"]) * build(d["A"])
    if op == "ScaleR":
        return build(d["A"]) * scalar_value(d["a"])
    parts = [build(p) for p in d["parts"]]
    if op == "Compose":
        out = parts[0]
        for p in parts[1:]:
            out = out * p
        return out
    if op == "Add":
        out = parts[0]
        for p in parts[1:]:
            out = out + p
        return out
    if op == "Sub":
        return parts[0] - parts[1]
    if op == "Hstack":
        # (documented signatures called positionally for half of the descriptions)
        if _positional(d):
            return L.Hstack(parts, d["axis"])
        return L.Hstack(parts, axis=d["axis"])
    if op == "Vstack":
        if _positional(d):
            return L.Vstack(parts, d["axis"])
        return L.Vstack(parts, axis=d["axis"])
    if op == "Diag":
        if _positional(d):
            return L.Diag(parts, d["oaxis"], d["iaxis"])
        return L.Diag(parts, oaxis=d["oaxis"], iaxis=d["iaxis"])
    raise ValueError("unknown op " + op)


def signature(d, depth=0):
    """Structural signature (values excluded) for distinctness counting."""
    op = d["op"]
    if "parts" in d:
        inner = ",".join(signature(p, depth + 1) for p in d["parts"])
        extra = ""
        if op in ("Hstack", "Vstack"):
            extra = "@%s" % d["axis"]
        elif op == "Diag":
            extra = "@%s,%s" % (d["oaxis"], d["iaxis"])
        return "%s%s(%s)" % (op, extra, inner)
    if "A" in d:
        return "%s(%s)" % (op, signature(d["A"], depth + 1))
    keys = [k for k in sorted(d) if k not in ("op", "aseed", "ishape", "oshape")]
    par = []
    for k in keys:
        v = d[k]
        if k in ("mshape", "fshape", "dshape", "pts", "grid", "grd", "shift", "idx", "blk",
                 "strides", "factors", "ishift", "oshift", "mps_ker", "img_ker"):
            v = "set" if v is not None else None
            if k in ("strides", "ishift", "oshift", "shift") and d[k] is not None:
                v = "set"
            if k in ("blk",):
                b, s = d["blk"], d["strides"]
                v = "".join("o" if ss < bb else "t" if ss == bb else "g" for bb, ss in zip(b, s))
        if isinstance(v, float):
            v = round(v, 1)
        par.append("%s=%s" % (k, v))
    nd = "" if d["ishape"] is None else "%dd" % len(d["ishape"])
    return "%s[%s;%s]" % (op, nd, ",".join(par))


def leaf_ops(d, out=None):
    out = out if out is not None else []
    if "parts" in d:
        for p in d["parts"]:
            leaf_ops(p, out)
    elif "A" in d:
        out.append(d["op"])
        leaf_ops(d["A"], out)
    else:
        out.append(d["op"])
    return out


def dense(A, isize=None):
    """Dense matrix of a linear operator through its real apply (column by column)."""
    ish = tuple(A.ishape)
    n = int(np.prod(ish)) if ish else 1
    cols = []
    for j in range(n):
        e = np.zeros(n, np.complex128)
        e[j] = 1
        cols.append(np.asarray(A(e.reshape(ish))).ravel())
    return np.stack(cols, axis=1)
