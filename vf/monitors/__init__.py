"""Class-level monitors attached to the real sigpy classes from the harness.

install() patches, in place, on the class objects every alias shares:
  sigpy.linop.Linop.apply     -> linop_mon  (exact oshape, input / captured arrays not mutated)
  sigpy.prox.Prox.__call__    -> prox_mon   (icontract postcondition: per-class optimality certificate)
  sigpy.alg.Alg.update / done -> alg_mon    (exactly-once counter, update budget, event hooks)
  sigpy.app.App.run           -> alg_mon    (returns what the algorithm holds)
  public array functions      -> arg_mon    (observer: element types / memory layouts actually seen)

Every monitor counts its evaluations in STATE.count; violations are appended to
STATE.events as dicts {prop, kind, detail}.  Monitors never raise into the
monitored code (a violation inside a solver run must not abort the history
being observed) except alg_mon.MonitorAbort, which bounds a non-terminating
driver loop on logical steps.
"""
import collections


class _State:
    def __init__(self):
        self.count = collections.Counter()
        self.events = []
        self.installed = False
        self.depth = 0
        self.peak = 0.0      # largest ||output|| seen by the Linop.apply hook (reset per use)

    def event(self, prop, kind, detail):
        self.count["violation:%s:%s" % (prop, kind)] += 1
        if len(self.events) < 50:
            self.events.append({"prop": prop, "kind": kind, "detail": detail})

    def drain(self):
        ev, self.events = self.events, []
        return ev

    def snapshot_counts(self):
        return collections.Counter(self.count)


STATE = _State()


def install():
    if STATE.installed:
        return
    from vf.monitors import linop_mon, prox_mon, alg_mon, arg_mon
    linop_mon.install()
    arg_mon.install()
    prox_mon.install()
    alg_mon.install()
    STATE.installed = True
