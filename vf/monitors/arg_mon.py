"""Argument-class observer on sigpy's public array functions and on Linop.apply.

It decides nothing by itself: it records which element types and memory layouts the real
functions were actually called with (counters ``in:<dtype>``, ``in:layout:<C|F|strided>``,
``in:readonly``, ``fn:<name>``), so that a check which claims to cover, say, Fortran-ordered
or strided inputs can list those counters as deciding monitors: if a harness mistake keeps the
class from ever reaching the code under test, the check ends inconclusive instead of "held".
"""
import functools
import types

import numpy as np

from vf.monitors import STATE

MODULES = ["block", "conv", "fourier", "interp", "thresh", "util", "wavelet"]
RF_MODULES = ["sim", "slr", "trajgrad", "optcont"]
MRI_MODULES = ["samp", "sim", "util"]


def observe(a):
    """Count the class of one array argument."""
    if not isinstance(a, np.ndarray) or a.size <= 1:
        return
    cnt = STATE.count
    cnt["in:" + a.dtype.name] += 1
    fl = a.flags
    if fl.c_contiguous:
        cnt["in:layout:C"] += 1
    elif fl.f_contiguous:
        cnt["in:layout:F"] += 1
    else:
        cnt["in:layout:strided"] += 1
    if not fl.writeable:
        cnt["in:readonly"] += 1


def _wrap(name, fn):
    key = "fn:" + name

    @functools.wraps(fn)
    def wrapper(*args, **kwargs):
        if STATE.depth == 0:            # only calls made from outside an operator application
            STATE.count[key] += 1
            for a in args:
                observe(a)
            for a in kwargs.values():
                observe(a)
        return fn(*args, **kwargs)

    wrapper.__vf_wrapped__ = fn
    return wrapper


def install():
    import sigpy as sp
    for m in MODULES:
        mod = getattr(sp, m)
        for name in getattr(mod, "__all__", []):
            fn = getattr(mod, name, None)
            if not isinstance(fn, types.FunctionType) or hasattr(fn, "__vf_wrapped__"):
                continue
            w = _wrap(name, fn)
            setattr(mod, name, w)
            if getattr(sp, name, None) is fn:
                setattr(sp, name, w)
    import sigpy.mri.rf as rf
    import sigpy.mri as mri
    for pkg, mods in ((rf, RF_MODULES), (mri, MRI_MODULES)):
        for m in mods:
            mod = getattr(pkg, m)
            for name in getattr(mod, "__all__", []):
                fn = getattr(mod, name, None)
                if not isinstance(fn, types.FunctionType) or hasattr(fn, "__vf_wrapped__"):
                    continue
                w = _wrap(name, fn)
                setattr(mod, name, w)
                if getattr(pkg, name, None) is fn:
                    setattr(pkg, name, w)
