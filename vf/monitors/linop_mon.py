"""Invariant-at-a-hook monitor on sigpy.linop.Linop.apply.

For every operator application anywhere in the process (nested applications
inside Compose/Add/Hstack/Vstack/Diag/Conj included, and the ones solvers and
MRI apps cause) it checks at return:

  C03  output.shape == tuple(op.oshape) exactly (sigpy's own check zips the
       two shapes and therefore accepts an output with too few dimensions),
       whenever the input had exactly op.ishape;
  C02  the caller's input array holds the same bytes as at entry;
  C02  every numpy array captured by the operator object (vars(op): mult, mat,
       coord, filt, data, psf ...) holds the same bytes as at entry.

Returning a view of the input is not mutation and is not flagged.
"""
import hashlib

import numpy as np

from vf.monitors import STATE, arg_mon

HASH_LIMIT = 1 << 24          # bytes; larger arrays are sampled, not hashed fully


def digest(a):
    if a.nbytes > HASH_LIMIT:
        flat = a.reshape(-1)
        step = max(1, flat.size // 65536)
        a = flat[::step]
    h = hashlib.blake2b(digest_size=12)
    h.update(str((a.dtype.str, a.shape)).encode())
    h.update(np.ascontiguousarray(a).tobytes())
    return h.digest()


def captured_arrays(op):
    out = []
    for k, v in vars(op).items():
        if isinstance(v, np.ndarray):
            out.append((k, v))
    return out


def captured_tree(op, seen=None, depth=0):
    """Every ndarray reachable from an operator object: its own attributes and, recursively,
    those of the operators it is composed of (each array once)."""
    import sigpy.linop as L
    seen = {} if seen is None else seen
    if depth > 8 or not hasattr(op, "__dict__"):
        return seen
    for k, v in vars(op).items():
        if isinstance(v, np.ndarray):
            seen.setdefault(id(v), (type(op).__name__ + "." + k, v))
        elif isinstance(v, L.Linop) and k not in ("H", "N", "adjoint", "normal"):
            captured_tree(v, seen, depth + 1)
        elif isinstance(v, (list, tuple)) and v and all(isinstance(t, L.Linop) for t in v):
            for t in v:
                captured_tree(t, seen, depth + 1)
    return seen


def install():
    import sigpy.linop as L

    orig = L.Linop.apply

    def apply(self, input):
        cnt = STATE.count
        cnt["Linop.apply"] += 1
        cnt["apply:" + type(self).__name__] += 1
        is_arr = isinstance(input, np.ndarray)
        if is_arr:
            if STATE.depth == 0:
                arg_mon.observe(input)
            hin = digest(input)
            caps = [(k, v, digest(v)) for k, v in captured_arrays(self)]
            exact_in = tuple(input.shape) == tuple(self.ishape)
        STATE.depth += 1
        try:
            output = orig(self, input)
        except BaseException:
            # a rejected / failed application must not leave the caller's array or the
            # arrays the operator was built from modified either
            if is_arr:
                cnt["Linop.apply:raised"] += 1
                name = type(self).__name__
                if digest(input) != hin:
                    STATE.event("C02", "input-mutated",
                                "%s.apply raised and left its input array modified (%r)" % (
                                    name, self))
                for k, v, h in caps:
                    if digest(v) != h:
                        STATE.event("C02", "param-mutated",
                                    "%s.apply raised and left captured array %r modified "
                                    "(%r)" % (name, k, self))
            raise
        finally:
            STATE.depth -= 1
        if isinstance(output, np.ndarray) and output.size <= (1 << 20):
            # magnitude of the largest intermediate result: scale for round-off floors
            n = float(np.linalg.norm(output.ravel()))
            if n > STATE.peak and n == n:
                STATE.peak = n
        if is_arr:
            cnt["Linop.apply:checked"] += 1
            name = type(self).__name__
            if digest(input) != hin:
                STATE.event("C02", "input-mutated",
                            "%s.apply modified its input array (%r)" % (name, self))
            for k, v, h in caps:
                if digest(v) != h:
                    STATE.event("C02", "param-mutated",
                                "%s.apply modified captured array %r (%r)" % (
                                    name, k, self))
            if exact_in and isinstance(output, np.ndarray):
                if tuple(output.shape) != tuple(self.oshape):
                    STATE.event("C03", "oshape",
                                "%s.apply returned shape %s but advertises %s (%r)" % (
                                    name, tuple(output.shape), tuple(self.oshape), self))
        return output

    apply.__wrapped__ = orig
    L.Linop.apply = apply
