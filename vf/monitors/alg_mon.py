"""Trace monitor on sigpy.alg.Alg.update / Alg.done and sigpy.app.App.run.

Always on:
  * every update() must advance alg.iter by exactly 1 (C15, exactly-once counter);
  * updates per Alg object are counted; when a budget is active (budget()
    context manager) the wrapper raises MonitorAbort once an object has been
    updated more than max_iter + extra times, so that a driver loop that does not
    terminate is a deterministic witness decided on logical steps, not a timeout;
  * App.run() must return the object its _output() designates (counted).
Hooks: functions in UPDATE_HOOKS are called as hook(alg, iter_before) after every
update (used by workloads to snapshot state at the API boundary while App.run()
is the driver).
"""
import contextlib

from vf.monitors import STATE


class MonitorAbort(BaseException):
    """Raised by the monitor to stop a driver loop that exceeded its logical bound."""


UPDATE_HOOKS = []
DONE_HOOKS = []
_BUDGET = [None]


@contextlib.contextmanager
def budget(extra=3):
    old = _BUDGET[0]
    _BUDGET[0] = extra
    try:
        yield
    finally:
        _BUDGET[0] = old


@contextlib.contextmanager
def hooks(update=None, done=None):
    if update is not None:
        UPDATE_HOOKS.append(update)
    if done is not None:
        DONE_HOOKS.append(done)
    try:
        yield
    finally:
        if update is not None:
            UPDATE_HOOKS.remove(update)
        if done is not None:
            DONE_HOOKS.remove(done)


def install():
    import sigpy.alg as A
    import sigpy.app as APP

    orig_update = A.Alg.update
    orig_done = A.Alg.done
    orig_run = APP.App.run

    def update(self):
        cnt = STATE.count
        name = type(self).__name__
        cnt["Alg.update"] += 1
        cnt["update:" + name] += 1
        before = self.iter
        n = getattr(self, "_vf_updates", 0) + 1
        try:
            self._vf_updates = n
        except Exception:
            pass
        if _BUDGET[0] is not None and n > self.max_iter + _BUDGET[0]:
            STATE.event("C15", "budget:" + name,
                        "%s updated %d times with max_iter=%s (driver loop does not stop)"
                        % (name, n, self.max_iter))
            raise MonitorAbort("%s exceeded max_iter=%s by %d updates" % (
                name, self.max_iter, n - self.max_iter))
        try:
            orig_update(self)
        except MonitorAbort:
            raise
        except BaseException:
            # an update that raised performed no update: the counter must not have moved
            cnt["Alg.update:raised"] += 1
            if self.iter != before:
                STATE.event("C15", "counter:" + name,
                            "%s.update() raised but moved iter from %r to %r" % (
                                name, before, self.iter))
            raise
        after = self.iter
        if after != before + 1:
            STATE.event("C15", "counter:" + name,
                        "%s.update() moved iter from %r to %r" % (name, before, after))
        for h in list(UPDATE_HOOKS):
            h(self, before)

    def done(self):
        STATE.count["Alg.done"] += 1
        d = orig_done(self)
        # done() is a query: asked again straight away (a driver that logs "converged?" next
        # to its loop condition does) it gives the same answer
        try:
            d2 = orig_done(self)
        except BaseException:
            d2 = d
        if bool(d2) != bool(d):
            for p_ in ("C12", "C13", "C14", "C15"):
                STATE.event(p_, "done-not-a-query:" + type(self).__name__,
                            "%s.done() returned %r and, asked again without an update in "
                            "between, %r (iter=%r, max_iter=%r)" % (
                                type(self).__name__, d, d2, self.iter, self.max_iter))
        for h in list(DONE_HOOKS):
            h(self, d)
        return d

    def run(self):
        STATE.count["App.run"] += 1
        STATE.count["run:" + type(self).__name__] += 1
        return orig_run(self)

    update.__wrapped__ = orig_update
    done.__wrapped__ = orig_done
    run.__wrapped__ = orig_run
    A.Alg.update = update
    A.Alg.done = done
    APP.App.run = run
