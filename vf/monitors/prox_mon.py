"""Contract on sigpy.prox.Prox.__call__ (icontract postcondition + outer wrapper).

The postcondition `prox_is_minimiser(self, alpha, input, result, OLD)` runs for
every proximal call in every workload.  It dispatches on type(self) and checks
an *optimality certificate* (KKT / subgradient conditions of
  argmin_x 0.5*||x - y||^2 + alpha*g(x)),
not a re-implementation of the closed form, plus shape, finiteness and
non-mutation of the input and of captured arrays.  It records and returns True
so a violation inside a solver run does not abort the observed history.
icontract does not evaluate postconditions when the call raises, so the
contract is nested inside a plain outer wrapper that records "raised for a
well-formed input".

certificate(P, alpha, y, x) -> (ok, branch, detail); ok is None when the class /
input is outside what the property states (unknown class, complex box, ...).
"""
import numpy as np

from vf.monitors import STATE
from vf.monitors.linop_mon import digest, captured_arrays


class ProxContractBroken(Exception):
    pass


def _tol(y):
    if y.dtype in (np.complex64, np.float32):
        return 2e-4
    return 1e-9


def _scale(*arrs):
    m = 1.0
    for a in arrs:
        a = np.asarray(a)
        if a.size:
            v = float(np.max(np.abs(a)))
            if np.isfinite(v):
                m = max(m, v)
    return m


def certificate(P, alpha, y, x, depth=0, tol=None):
    import sigpy.prox as SP
    name = type(P).__name__
    # the tolerance class is fixed at the outermost call (and widened when a unitary
    # transform turns the data into single precision), not re-derived from the dtype of
    # intermediate points of the recursion
    tol = max(tol or 0.0, _tol(y))
    if not isinstance(x, np.ndarray):
        return False, name + ":type", "result is %r, not an array" % type(x)
    if tuple(x.shape) != tuple(y.shape):
        return False, name + ":shape", "result shape %s != input shape %s" % (
            tuple(x.shape), tuple(y.shape))
    if np.all(np.isfinite(y)) and not np.all(np.isfinite(x)):
        return False, name + ":nonfinite", "non-finite result for finite input"
    sc = _scale(y, x)
    eps = tol * sc
    # round-off level of values obtained by arithmetic on data of magnitude sc: entries
    # below it count as zero when a support is identified (1e-12 leaves 1e3..1e4 eps of
    # head-room and still resolves features 1e-10 * sc small)
    rz = (1e-12 if tol < 1e-6 else 1e-5) * sc
    cls = type(P)

    if cls is SP.NoOp:
        # exact at top level; inside a nesting the point being certified was obtained by
        # arithmetic ((y - x)/alpha, A x), so round-off is allowed
        if depth == 0:
            ok = bool(np.array_equal(x, y))
        else:
            ok = bool(np.max(np.abs(x - y)) <= eps * 10) if x.size else True
        return ok, "NoOp", "" if ok else "NoOp changed its input"

    if cls is SP.L1Reg:
        t = np.asarray(P.lamda) * np.asarray(alpha)
        ax = np.abs(x)
        # entries at round-off level count as zeros (the certified point may come out of
        # arithmetic in a nesting: exact zeros become 1e-16)
        nz = ax > rz
        r = y - x
        tt = np.broadcast_to(t, y.shape)
        bad1 = np.abs(r[nz] - tt[nz] * x[nz] / ax[nz])
        bad0 = np.abs(y[~nz]) - tt[~nz]
        e1 = float(bad1.max()) if bad1.size else 0.0
        e0 = float(bad0.max()) if bad0.size else 0.0
        ok = e1 <= eps * 10 and e0 <= eps * 10
        br = "L1Reg:" + ("mixed" if nz.any() and (~nz).any() else
                         "allkept" if nz.any() else "allzero")
        return ok, br, "" if ok else (
            "subgradient condition off by %.3g (support) / %.3g (zeros); t=%s" % (
                e1, e0, np.unique(tt)[:3]))

    if cls is SP.L2Reg:
        la = np.asarray(P.lamda) * np.asarray(alpha)
        v = y.astype(np.result_type(y.dtype, np.float64), copy=True)
        if P.y is not None:
            v = v + la * P.y
        v = v / (1 + la)
        if P.proxh is None:
            e = float(np.max(np.abs(x - v))) if x.size else 0.0
            ok = e <= eps * 10
            return ok, "L2Reg", "" if ok else "(1+al)x = y + al*z off by %.3g" % e
        ok, br, d = certificate(P.proxh, np.asarray(alpha) / (1 + la),
                                v.astype(np.result_type(y.dtype, x.dtype), copy=False), x, depth + 1, tol)
        return ok, "L2Reg+" + br, d

    if cls is SP.L2Proj:
        from sigpy.util import _normalize_axes
        axes = _normalize_axes(P.axes, y.ndim)
        b = P.y
        d = y - b
        n = np.sqrt(np.sum(np.abs(d) ** 2, axis=axes, keepdims=True))
        nx = np.sqrt(np.sum(np.abs(x - b) ** 2, axis=axes, keepdims=True))
        e_eps = float(np.max(np.asarray(P.epsilon)))
        if np.any(nx > np.asarray(P.epsilon) * (1 + 1e-9) + eps):
            return False, "L2Proj:infeasible", "||x-b|| = %.6g > eps = %.6g" % (
                float(nx.max()), e_eps)
        s = np.minimum(1.0, np.asarray(P.epsilon) / np.where(n > 0, n, 1.0))
        e = float(np.max(np.abs((x - b) - s * d))) if x.size else 0.0
        ok = e <= eps * 10
        inside = bool(np.all(n <= np.asarray(P.epsilon)))
        return ok, "L2Proj:" + ("feasible" if inside else "boundary"), \
            "" if ok else "not the nearest point of the ball: off by %.3g" % e

    if cls is SP.LInfProj:
        b = 0 if P.bias is None else P.bias
        d = y - b
        e_ = np.asarray(P.epsilon)
        if np.any(np.abs(x - b) > e_ * (1 + 1e-9) + eps):
            return False, "LInfProj:infeasible", "|x-b| exceeds eps"
        ad = np.abs(d)
        s = np.minimum(1.0, e_ / np.where(ad > 0, ad, 1.0))
        e = float(np.max(np.abs((x - b) - s * d))) if x.size else 0.0
        ok = e <= eps * 10
        return ok, "LInfProj:" + ("feasible" if np.all(ad <= e_) else "clipped"), \
            "" if ok else "not the nearest point of the l-inf ball: off by %.3g" % e

    if cls is SP.L1Proj:
        e_ = float(P.epsilon)
        if e_ < 100 * rz * y.size:
            return None, "L1Proj:unresolvable", ""   # ball smaller than the data's round-off
        n1y = float(np.sum(np.abs(y)))
        n1x = float(np.sum(np.abs(x)))
        if n1x > e_ * (1 + 1e-9) + eps * y.size:
            return False, "L1Proj:infeasible", "||x||_1 = %.6g > eps = %.6g" % (n1x, e_)
        if n1y <= e_:
            e = float(np.max(np.abs(x - y))) if x.size else 0.0
            ok = e <= eps
            return ok, "L1Proj:feasible", "" if ok else \
                "feasible input moved by %.3g" % e
        if abs(n1x - e_) > eps * y.size * 10:
            return False, "L1Proj:interior", \
                "infeasible input projected strictly inside: ||x||_1 = %.6g, eps = %.6g" % (
                    n1x, e_)
        ax, ay = np.abs(x), np.abs(y)
        nz = ax > rz
        if not nz.any():
            return (e_ <= eps), "L1Proj:allzero", "all-zero projection with eps>0"
        th = ay[nz] - ax[nz]
        theta = float(np.median(th))
        e1 = float(np.max(np.abs(th - theta)))
        # phase agreement per element: relative, or - for entries far below the data's scale,
        # whose phase is only known to (absolute round-off)/|x_i| - as an absolute deviation
        phv = np.abs(x[nz] / ax[nz] - y[nz] / ay[nz])
        badph = (phv > max(1e-7, 10 * tol)) & (ax[nz] * phv > eps * 10)
        ph = float(np.max(phv[badph])) if badph.any() else 0.0
        e0 = float(np.max(ay[~nz] - theta)) if (~nz).any() else 0.0
        ok = theta >= -eps and e1 <= eps * 10 and not badph.any() and e0 <= eps * 10
        return ok, "L1Proj:boundary", "" if ok else (
            "not a soft-threshold of the input: theta=%.6g spread=%.3g phase=%.3g zeros=%.3g"
            % (theta, e1, ph, e0))

    if cls is SP.PsdProj:
        if y.ndim != 2 or y.shape[0] != y.shape[1]:
            return None, "PsdProj:notsquare", ""
        H = (y + y.conj().T) / 2
        sc2 = max(1.0, float(np.linalg.norm(H)))
        t2 = 1e-9 * sc2 if tol < 1e-6 else 1e-3 * sc2
        if np.iscomplexobj(x) and not np.iscomplexobj(y):
            if float(np.max(np.abs(x.imag))) > t2:
                return False, "PsdProj:imag", "real symmetric input gave complex result"
        herm = float(np.linalg.norm(x - x.conj().T))
        if herm > t2:
            return False, "PsdProj:nonhermitian", "result not Hermitian: %.3g" % herm
        xs = (x + x.conj().T) / 2
        wx = np.linalg.eigvalsh(xs)
        wd = np.linalg.eigvalsh(xs - H)
        comp = abs(np.trace(xs @ (xs - H)))
        ok = wx.min() >= -t2 and wd.min() >= -t2 and comp <= t2 * sc2
        wH = np.linalg.eigvalsh(H)
        rep = bool(np.any(np.diff(np.sort(wH)) < 1e-8 * sc2)) if wH.size > 1 else False
        br = "PsdProj:" + ("repeated" if rep else "simple") + (
            ":psd-input" if wH.min() >= 0 else ":indef-input")
        return ok, br, "" if ok else (
            "KKT of the PSD projection violated: min eig(x)=%.3g min eig(x-H)=%.3g tr=%.3g"
            % (wx.min(), wd.min(), comp))

    if cls is SP.BoxConstraint:
        if np.iscomplexobj(y):
            return None, "Box:complex", ""
        lo = np.broadcast_to(np.asarray(P.lower), y.shape)
        hi = np.broadcast_to(np.asarray(P.upper), y.shape)
        if np.any(x < lo - eps) or np.any(x > hi + eps):
            return False, "Box:infeasible", "result outside the box"
        below, above = y < lo, y > hi
        feas = ~(below | above)
        e = 0.0
        if feas.any():
            e = max(e, float(np.max(np.abs(x[feas] - y[feas]))))
        if below.any():
            e = max(e, float(np.max(np.abs(x[below] - lo[below]))))
        if above.any():
            e = max(e, float(np.max(np.abs(x[above] - hi[above]))))
        ok = e <= eps
        return ok, "Box:" + ("feasible" if feas.all() else "clipped"), \
            "" if ok else "not the nearest point of the box: off by %.3g" % e

    if cls is SP.Conj:
        if depth > 6:
            return None, "Conj:deep", ""
        # x = prox_{alpha g*}(y)  <=>  w = (y - x)/alpha minimises
        # 0.5||w - y/alpha||^2 + (1/alpha) g(w)
        a = np.asarray(alpha)
        w = (y - x) / a
        ok, br, d = certificate(P.prox, 1 / a, y / a, w.astype(np.result_type(y.dtype, x.dtype),
                                                                 copy=False),
                                depth + 1, tol)
        return ok, "Conj(" + br + ")", d

    if cls is SP.Stack:
        sizes = [int(np.prod(s)) for s in P.shapes]
        if y.ndim != 1 or sum(sizes) != y.size:
            return None, "Stack:badinput", ""
        cuts = np.cumsum(sizes)[:-1]
        ys = np.split(y, cuts)
        xs = np.split(x, cuts)
        if np.ndim(alpha) == 0:
            als = [alpha] * len(sizes)
        else:
            al = np.asarray(alpha)
            if al.size != y.size:
                return None, "Stack:alpha", ""
            als = [a.reshape(s) for a, s in zip(np.split(al.ravel(), cuts), P.shapes)]
        brs = []
        okall = True
        for p, s, yy, xx, a in zip(P.proxs, P.shapes, ys, xs, als):
            ok, br, d = certificate(p, a, yy.reshape(s), xx.reshape(s), depth + 1, tol)
            brs.append(br)
            if ok is False:
                return False, "Stack[" + ",".join(brs) + "]", d
            if ok is None:
                okall = None
        return okall, "Stack[" + ",".join(brs) + "]", ""

    if cls is SP.UnitaryTransform:
        A = P.A
        rng = np.random.default_rng(12345)
        try:
            e = (rng.standard_normal(A.ishape) + 1j * rng.standard_normal(A.ishape))
            f = (rng.standard_normal(A.oshape) + 1j * rng.standard_normal(A.oshape))
            if not np.iscomplexobj(y):
                e, f = e.real, f.real
            e, f = e.astype(y.dtype), f.astype(y.dtype)
            u1 = np.linalg.norm(A.H(A(e)) - e) / np.linalg.norm(e)
            u2 = np.linalg.norm(A(A.H(f)) - f) / np.linalg.norm(f)
        except Exception:
            return None, "Unitary:probe-failed", ""
        Ay, Ax = A(y), A(x)
        tol = max(tol, _tol(Ay))           # e.g. sigpy's fft casts real input to complex64
        if max(u1, u2) > 1e3 * tol:
            return None, "Unitary:not-unitary", ""
        ok, br, d = certificate(P.prox, alpha, Ay, Ax, depth + 1, tol)
        return ok, "Unitary(" + br + ")", d

    return None, name + ":unknown-class", ""


# -- variational spot check ------------------------------------------------

def g_and_pull(P):
    """Return (g, pull) for prox classes with an explicit g: g(v) value
    (np.inf outside the domain), pull(v) a feasible point obtained by shrinking v
    towards the set's centre (independent of the library's projections)."""
    import sigpy.prox as SP
    cls = type(P)
    if cls is SP.L1Reg:
        return (lambda v: float(np.sum(np.asarray(P.lamda) * np.abs(v)))), (lambda v: v)
    if cls is SP.NoOp:
        return (lambda v: 0.0), (lambda v: v)
    if cls is SP.L2Reg:
        z = 0 if P.y is None else P.y
        if P.proxh is None:
            return (lambda v: float(P.lamda) / 2 * float(np.sum(np.abs(v - z) ** 2))), \
                (lambda v: v)
        gp = g_and_pull(P.proxh)
        if gp is None:
            return None
        gh, ph = gp
        return (lambda v: float(P.lamda) / 2 * float(np.sum(np.abs(v - z) ** 2)) + gh(v)), ph
    if cls is SP.L2Proj and P.axes is None:
        b = P.y

        def pull(v):
            n = float(np.linalg.norm(v - b))
            return v if n <= P.epsilon else b + (v - b) * (P.epsilon / n) * (1 - 1e-12)
        return (lambda v: 0.0), pull
    if cls is SP.LInfProj:
        b = 0 if P.bias is None else P.bias

        def pull(v):
            n = float(np.max(np.abs(v - b))) if v.size else 0.0
            return v if n <= P.epsilon else b + (v - b) * (P.epsilon / n) * (1 - 1e-12)
        return (lambda v: 0.0), pull
    if cls is SP.L1Proj:
        def pull(v):
            n = float(np.sum(np.abs(v)))
            return v if n <= P.epsilon else v * (P.epsilon / n) * (1 - 1e-12)
        return (lambda v: 0.0), pull
    if cls is SP.BoxConstraint:
        def pull(v):
            if np.iscomplexobj(v):
                return None
            return np.minimum(np.maximum(v, P.lower), P.upper)
        return (lambda v: 0.0), pull
    return None


def variational_spot_check(P, alpha, y, x, rng):
    """Phi(x) <= Phi(z) + tol for feasible perturbations z of x."""
    import sigpy.prox as SP
    if np.ndim(alpha) != 0:
        return None, ""
    tol = _tol(y) * 100
    if type(P) is SP.PsdProj:
        if y.ndim != 2 or y.shape[0] != y.shape[1]:
            return None, ""
        xs = (x + x.conj().T) / 2
        if np.linalg.eigvalsh(xs).min() < -1e-7 * _scale(x):
            return None, ""   # certificate reports infeasibility
        H = (y + y.conj().T) / 2    # distance to y and to H differ by a constant
        base = 0.5 * float(np.linalg.norm(xs - H) ** 2)
        n = y.shape[0]
        worst = 0.0
        for k in range(8):
            G = rng.standard_normal((n, n))
            if np.iscomplexobj(y):
                G = G + 1j * rng.standard_normal((n, n))
            Q = G @ G.conj().T
            for t in (1e-3, 1e-1):
                z = (1 - t) * xs + t * Q
                worst = min(worst, 0.5 * float(np.linalg.norm(z - H) ** 2) - base)
        sc = max(1.0, base)
        return (worst >= -tol * sc), "PSD perturbation lowers the distance by %.3g" % -worst
    gp = g_and_pull(P)
    if gp is None:
        return None, ""
    g, pull = gp
    if alpha is None or np.ndim(alpha) != 0:
        return None, ""          # (the repository's tests call NoOp-like proxes with alpha=None)
    a = float(alpha)

    def phi(v):
        return 0.5 * float(np.sum(np.abs(v - y) ** 2)) + a * g(v)
    px = pull(x)
    if px is None:
        return None, ""
    base = phi(x)
    if not np.isfinite(base):
        return None, ""
    worst = 0.0
    for k in range(8):
        d = rng.standard_normal(y.shape)
        if np.iscomplexobj(y):
            d = d + 1j * rng.standard_normal(y.shape)
        for t in (1e-3, 1e-1):
            z = pull(x + t * d)
            worst = min(worst, phi(z) - base)
    sc = max(1.0, abs(base))
    return (worst >= -tol * sc), "a feasible perturbation lowers the objective by %.3g" % -worst


# -- contract glue -----------------------------------------------------------

_SPOT_RNG = np.random.default_rng(987654321)


def input_digest(input):
    return digest(input) if isinstance(input, np.ndarray) else None


def alpha_snapshot(alpha):
    """An array-valued step size (prox.Stack hands views of one to its members, the
    primal-dual solver takes arrays) is an argument like the input: kept as passed."""
    return alpha.copy() if isinstance(alpha, np.ndarray) else None


def prox_is_minimiser(self, alpha, input, result, OLD):
    cnt = STATE.count
    cnt["Prox.__call__:contract"] += 1
    name = type(self).__name__
    if not isinstance(input, np.ndarray):
        return True
    try:
        if OLD.alpha0 is not None:
            cnt["Prox.__call__:array-alpha"] += 1
            if not np.array_equal(alpha, OLD.alpha0, equal_nan=True):
                STATE.event("C02", "prox-alpha-mutated",
                            "%s modified the step-size array it was called with (max change "
                            "%.3g)" % (name, float(np.max(np.abs(alpha - OLD.alpha0)))))
                alpha = OLD.alpha0           # decide the result against the step size passed
        if OLD.hin is not None and digest(input) != OLD.hin:
            STATE.event("C02", "prox-input-mutated", "%s modified its input" % name)
        for k, v, h in OLD.caps:
            if digest(v) != h:
                STATE.event("C02", "prox-param-mutated",
                            "%s modified captured array %r" % (name, k))
        ok, branch, detail = certificate(self, alpha, input, result)
        cnt["prox:" + name] += 1
        cnt["proxbranch:" + branch.split("(")[0].split("[")[0].split("+")[0]] += 1
        if ok is None:
            cnt["Prox.__call__:skipped"] += 1
        elif ok:
            cnt["Prox.__call__:certified"] += 1
        else:
            STATE.event("C11", "certificate:" + branch,
                        "%r alpha=%s: %s" % (self, _fmt(alpha), detail))
        if ok and OLD.hin is not None and OLD.hin[0] % 5 == 0:
            ok2, d2 = variational_spot_check(self, alpha, input, result, _SPOT_RNG)
            if ok2 is not None:
                cnt["Prox.__call__:variational"] += 1
                if not ok2:
                    STATE.event("C11", "variational:" + name,
                                "%r alpha=%s: %s" % (self, _fmt(alpha), d2))
    except Exception as e:     # the monitor must never break the monitored code
        cnt["Prox.__call__:monitor-error"] += 1
        if cnt["Prox.__call__:monitor-error"] <= 3:
            import traceback
            STATE.count["monitor-error:" + traceback.format_exc()[-300:]] += 1
    return True


def _fmt(alpha):
    return repr(alpha) if np.ndim(alpha) == 0 else "array%s" % (np.shape(alpha),)


def param_digests(self):
    return [(k, v, digest(v)) for k, v in captured_arrays(self)]


def in_chain(e, attr):
    """True when the exception or one of its causes carries the marker attribute (sigpy
    re-raises every exception of a nested prox as a new RuntimeError `from` the original)."""
    seen = 0
    while e is not None and seen < 20:
        if getattr(e, attr, False):
            return True
        e = e.__cause__
        seen += 1
    return False


def install():
    import icontract
    import sigpy.prox as SP

    orig = SP.Prox.__call__
    contracted = icontract.snapshot(input_digest, name="hin")(
        icontract.snapshot(param_digests, name="caps")(
            icontract.snapshot(alpha_snapshot, name="alpha0")(
                icontract.ensure(prox_is_minimiser, error=ProxContractBroken)(orig))))

    def __call__(self, alpha, input):
        STATE.count["Prox.__call__"] += 1
        pre = None
        if isinstance(input, np.ndarray) and input.size <= (1 << 16):
            try:
                pre = (digest(input), param_digests(self))
            except Exception:
                pre = None
        try:
            return contracted(self, alpha, input)
        except Exception as e:
            if pre is not None:
                # a rejected / failed call must not leave the caller's array or the arrays the
                # prox was built from modified either (the postcondition does not run on raise)
                try:
                    if digest(input) != pre[0]:
                        STATE.event("C02", "prox-input-mutated",
                                    "%s raised and left its input modified" % type(self).__name__)
                    for k_, v_, h_ in pre[1]:
                        if digest(v_) != h_:
                            STATE.event("C02", "prox-param-mutated",
                                        "%s raised and left captured array %r modified" % (
                                            type(self).__name__, k_))
                except Exception:
                    pass
            if in_chain(e, "_vf_unresolvable"):
                try:
                    e._vf_unresolvable = True
                    e._vf_seen = True
                except Exception:
                    pass
            if not in_chain(e, "_vf_seen"):
                try:
                    e._vf_seen = True
                except Exception:
                    pass
                wellformed = (
                    isinstance(input, np.ndarray)
                    and tuple(input.shape) == tuple(self.shape)
                    and np.all(np.isfinite(input))
                    and np.all(np.asarray(alpha) > 0))
                if wellformed and isinstance(self, SP.L1Proj):
                    # a ball radius below one ulp of the data's l1 norm: `cumsum(s) - eps`
                    # rounds back to `cumsum(s)` and Duchi's rule finds no index.  The data
                    # cannot resolve the problem in this precision: inconclusive, not a verdict
                    me = 1.2e-7 if input.dtype in (np.float32, np.complex64) else 2.3e-16
                    if float(self.epsilon) <= 8 * me * float(np.sum(np.abs(input))):
                        STATE.count["L1Proj:unresolvable-raise"] += 1
                        wellformed = False
                        try:
                            e._vf_unresolvable = True
                        except Exception:
                            pass
                if wellformed:
                    cause = e.__cause__ or e
                    STATE.event("C11", "raised:" + type(self).__name__,
                                "%r raised %s: %s for a well-formed input" % (
                                    self, type(cause).__name__, str(cause)[:200]))
            raise

    __call__.__wrapped__ = orig
    SP.Prox.__call__ = __call__
