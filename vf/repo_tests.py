"""Workload shared by the checks whose deciding monitors are always-on class-level hooks:
the repository's own tests, run in a subprocess under vf.pytest_plugin."""
import json
import os
import re
import subprocess
import sys
import tempfile

from vf.common import held, violated, inconclusive

ROOT = os.path.dirname(os.path.dirname(os.path.abspath(__file__)))


def available():
    repo = os.environ.get("VERIF_REPO_DIR", "/repo")
    return os.path.isdir(os.path.join(repo, "tests"))


def run(pid, files=("tests",)):
    repo = os.environ.get("VERIF_REPO_DIR", "/repo")
    if not os.path.isdir(os.path.join(repo, "tests")):
        return inconclusive("no tests directory next to the tree under test", sig="repo-tests")
    fd, out = tempfile.mkstemp(prefix="vf-pytest-", suffix=".json")
    os.close(fd)
    env = dict(os.environ, VF_PYTEST_OUT=out, PYTHONDONTWRITEBYTECODE="1")
    env["PYTHONPATH"] = os.pathsep.join([repo, ROOT, os.path.join(ROOT, ".deps")])
    for k in ("OMP_NUM_THREADS", "OPENBLAS_NUM_THREADS", "MKL_NUM_THREADS",
              "NUMBA_NUM_THREADS"):
        env[k] = "1"
    env["NUMBA_BOUNDSCHECK"] = "0"          # the suite's own timing; sanitizer runs elsewhere
    if env.get("NUMBA_CACHE_DIR"):          # never share a JIT cache with bounds-checked runs
        env["NUMBA_CACHE_DIR"] = env["NUMBA_CACHE_DIR"].rstrip("/") + "-pt"
    try:
        r = subprocess.run([sys.executable, "-m", "pytest", "-q", "-p", "no:cacheprovider",
                            "-p", "vf.pytest_plugin", "--continue-on-collection-errors",
                            "--ignore=tests/learn"] + list(files),
                           cwd=repo, env=env, stdout=subprocess.PIPE, stderr=subprocess.STDOUT,
                           text=True, timeout=1700)
        tail = (r.stdout or "").strip().splitlines()[-1:] or [""]
        try:
            data = json.load(open(out))
        except Exception:
            return inconclusive("the test session did not report (%s)" % tail[0][:150],
                                sig="repo-tests")
    except subprocess.TimeoutExpired:
        return inconclusive("the repository's tests did not finish under the monitors",
                            sig="repo-tests")
    finally:
        try:
            os.unlink(out)
        except OSError:
            pass
    cnt = data["count"]
    mine = [e for e in data["events"] if e["prop"] == pid]
    obs = {"tests_collected": data["collected"], "tests_failed": data["failed"],
           "Linop.apply": cnt.get("Linop.apply", 0), "Prox.__call__": cnt.get("Prox.__call__", 0),
           "Alg.update": cnt.get("Alg.update", 0), "App.run": cnt.get("App.run", 0)}
    sig = "repo-tests|" + pid
    if mine:
        r_ = violated(sig, "while the repository's own tests ran under the monitors: %s %s" % (
            mine[0]["kind"], mine[0]["detail"][:300]), {"events": mine[:5]},
            mech="repo-tests:" + mine[0]["kind"], obs=obs)
        return r_
    if obs["Linop.apply"] + obs["Prox.__call__"] + obs["Alg.update"] == 0:
        return inconclusive("no monitored event during the repository's tests", sig=sig)
    r_ = held(sig, obs, obs["Linop.apply"] + obs["Prox.__call__"] + obs["Alg.update"], True)
    r_["tags"] = ["repo-tests:%d-collected:%d-failed" % (data["collected"], data["failed"])]
    return r_
