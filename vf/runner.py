"""Parent process of a check: plan, worker pool, watchdogs, verdict, evidence.

Usage (through /verif/check):  check <ID> [--tier quick|thorough] [--replay PATH]

Exit codes: 0 held on everything explored (KNOWN-FINDING lines possible),
            1 at least one VIOLATION line,
            2 inconclusive (deciding monitor never reached / nothing conclusive).
"""
import argparse
import collections
import hashlib
import importlib
import json
import os
import queue
import select
import shutil
import subprocess
import sys
import threading
import time

ROOT = os.path.dirname(os.path.dirname(os.path.abspath(__file__)))
PY = "/venv/bin/python"
DEPS = os.path.join(ROOT, ".deps")
WORK = os.path.join(ROOT, ".work")
WHEELS = "/opt/veriftools/wheels"


def repo_dir():
    return os.environ.get("VERIF_REPO_DIR", "/repo")


def ensure_deps():
    """Offline install of icontract/deal beside /venv's interpreter (idempotent)."""
    if os.path.isdir(os.path.join(DEPS, "icontract")):
        return
    os.makedirs(DEPS, exist_ok=True)
    cmd = [PY, "-m", "pip", "install", "--quiet", "--no-index", "--find-links",
           WHEELS, "--target", DEPS, "icontract", "deal"]
    r = subprocess.run(cmd, stdout=subprocess.PIPE, stderr=subprocess.STDOUT,
                       text=True)
    if r.returncode != 0:
        sys.stderr.write(r.stdout)
        raise SystemExit("setup: could not install icontract/deal offline")


def tree_hash(repo):
    h = hashlib.blake2b(digest_size=8)
    base = os.path.join(repo, "sigpy")
    for dp, dn, fn in sorted(os.walk(base)):
        dn.sort()
        for f in sorted(fn):
            if f.endswith(".py"):
                p = os.path.join(dp, f)
                h.update(os.path.relpath(p, base).encode())
                with open(p, "rb") as fh:
                    h.update(fh.read())
    return h.hexdigest()


def worker_env(pid, boundscheck, thash):
    env = dict(os.environ)
    repo = repo_dir()
    env["PYTHONPATH"] = os.pathsep.join([repo, ROOT, DEPS])
    env["PYTHONDONTWRITEBYTECODE"] = "1"
    env["PYTHONHASHSEED"] = "0"
    env["NUMBA_BOUNDSCHECK"] = "1" if boundscheck else "0"
    env["NUMBA_CACHE_DIR"] = os.path.join(
        WORK, "nbcache-%s-bc%d" % (thash, 1 if boundscheck else 0))
    env["VERIF_REPO_DIR"] = repo
    env["OMP_NUM_THREADS"] = "1"
    env["OPENBLAS_NUM_THREADS"] = "1"
    env["MKL_NUM_THREADS"] = "1"
    env["NUMBA_NUM_THREADS"] = "1"
    env["TQDM_DISABLE"] = "1"
    env.pop("NUMBA_DISABLE_JIT", None)
    return env


class Worker:
    """One worker subprocess speaking a line protocol over pipes."""

    def __init__(self, pid, env, errpath, pyopt=False, nojit=False, threads=0):
        self.err = open(errpath, "ab")
        self.pyopt = bool(pyopt)
        self.nojit = bool(nojit)
        self.threads = int(threads or 0)
        if self.threads:
            # threads: the numba thread pool size of the process (an ambient setting, constant
            # within a run; every other worker is pinned to one thread)
            env = dict(env, NUMBA_NUM_THREADS=str(self.threads))
        if nojit:
            # nojit: numba's documented switch NUMBA_DISABLE_JIT=1 (the kernels run as plain
            # Python - debugger / coverage runs), for the cases that ask for it
            env = dict(env, NUMBA_DISABLE_JIT="1")
        # pyopt: the interpreter mode `python -O` (assert statements compiled away), for the
        # cases that ask for it - a validation written as an assert vanishes there
        self.proc = subprocess.Popen(
            [PY, "-u"] + (["-O"] if pyopt else []) + ["-X", "faulthandler", "-m", "vf.worker",
                                                      pid],
            stdin=subprocess.PIPE, stdout=subprocess.PIPE, stderr=self.err,
            env=env, cwd=ROOT)
        self.buf = b""
        self.fd = self.proc.stdout.fileno()

    def send(self, obj):
        try:
            self.proc.stdin.write((json.dumps(obj) + "\n").encode())
            self.proc.stdin.flush()
            return True
        except (BrokenPipeError, OSError):
            return False

    def recv(self, timeout):
        """Return a decoded protocol message, 'TIMEOUT' or 'EOF'."""
        deadline = time.monotonic() + timeout
        while True:
            while b"\n" in self.buf:
                line, self.buf = self.buf.split(b"\n", 1)
                if line.startswith(b"@@R "):
                    return json.loads(line[4:].decode())
            left = deadline - time.monotonic()
            if left <= 0:
                return "TIMEOUT"
            r, _, _ = select.select([self.fd], [], [], min(left, 1.0))
            if r:
                chunk = os.read(self.fd, 1 << 16)
                if not chunk:
                    return "EOF"
                self.buf += chunk

    def kill(self):
        try:
            self.proc.kill()
        except OSError:
            pass
        try:
            self.proc.wait(timeout=10)
        except Exception:
            pass
        self.err.close()

    def close(self):
        self.send({"quit": True})
        try:
            self.proc.wait(timeout=20)
        except Exception:
            self.proc.kill()
        self.err.close()


def _tail(path, n=30):
    try:
        with open(path, "rb") as fh:
            data = fh.read()[-6000:]
        return data.decode(errors="replace").splitlines()[-n:]
    except OSError:
        return []


def run_pool(pid, cases, env, workdir, nworkers, default_timeout, startup=240.0,
             chunk_min=8):
    """Run all cases; returns list of result dicts (one per case, in any order)."""
    q = queue.Queue()
    # chunk by generator so that a worker re-uses JIT signatures
    chunks = collections.OrderedDict()
    for c in cases:
        if c.get("fresh"):
            q.put([c])
        else:
            # (one chunk = one generator and one interpreter mode, so that a worker is not
            # restarted between cases)
            chunks.setdefault((c["gen"], bool(c.get("pyopt")), bool(c.get("nojit")),
                               int(c.get("threads") or 0)), []).append(c)
    nslots = max(1, nworkers)
    allchunks = []
    for g, lst in chunks.items():
        size = max(chunk_min, min(40, -(-len(lst) // nslots)))
        for i in range(0, len(lst), size):
            allchunks.append(lst[i:i + size])
    # longest generators first would need costs; interleave instead
    for ch in allchunks:
        q.put(ch)
    results = []
    lock = threading.Lock()

    def slot(k):
        errpath = os.path.join(workdir, "worker-%d.err" % k)
        w = None
        # one JIT cache directory per worker slot of this run: numba's on-disk cache is not
        # safe under concurrent writers (seen once each: a cached kernel that could not unbox
        # its ndarray argument until the cache was deleted, and wrong block placements in a
        # run in which 16 workers were filling one cold cache) - no two processes share one
        env_k = dict(env, NUMBA_CACHE_DIR=os.path.join(workdir, "nbcache-s%d" % k))

        def fresh_worker(pyopt=False, nojit=False, threads=0):
            ww = Worker(pid, env_k, errpath, pyopt, nojit, threads)
            msg = ww.recv(startup)
            if not (isinstance(msg, dict) and msg.get("ready")):
                ww.kill()
                return None, msg
            return ww, None

        while True:
            try:
                chunk = q.get_nowait()
            except queue.Empty:
                break
            for case in chunk:
                if w is None or case.get("fresh") or w.pyopt != bool(case.get("pyopt")) \
                        or w.nojit != bool(case.get("nojit")) \
                        or w.threads != int(case.get("threads") or 0):
                    if w is not None:
                        w.close()
                    w, bad = fresh_worker(bool(case.get("pyopt")), bool(case.get("nojit")),
                                          int(case.get("threads") or 0))
                    if w is None:
                        with lock:
                            results.append({
                                "id": case["id"], "gen": case["gen"],
                                "verdict": "inconclusive", "sig": "startup",
                                "nontrivial": False,
                                "why": "worker did not start: %r; %s" % (
                                    bad, " | ".join(_tail(errpath, 5)))})
                        continue
                t0 = time.monotonic()
                ok = w.send({"case": case})
                msg = w.recv(case.get("timeout", default_timeout)) if ok else "EOF"
                if isinstance(msg, dict):
                    msg["wall"] = round(time.monotonic() - t0, 3)
                    with lock:
                        results.append(msg)
                    if case.get("fresh"):
                        w.close()
                        w = None
                    continue
                # watchdog or crash: never a verdict about the property
                w.kill()
                w = None
                why = ("watchdog: no result within %ss" % case.get(
                    "timeout", default_timeout) if msg == "TIMEOUT"
                    else "worker died: " + " | ".join(_tail(errpath, 8)))
                with lock:
                    results.append({
                        "id": case["id"], "gen": case["gen"],
                        "verdict": "inconclusive",
                        "sig": "watchdog" if msg == "TIMEOUT" else "crash",
                        "nontrivial": False, "why": why,
                        "crash": msg != "TIMEOUT"})
        if w is not None:
            w.close()

    threads = [threading.Thread(target=slot, args=(k,), daemon=True)
               for k in range(nslots)]
    for t in threads:
        t.start()
    for t in threads:
        t.join()
    return results


def load_known():
    p = os.path.join(ROOT, "known_findings.json")
    if not os.path.exists(p):
        return []
    with open(p) as fh:
        return json.load(fh).get("findings", [])


def main(argv=None):
    ap = argparse.ArgumentParser()
    ap.add_argument("pid")
    ap.add_argument("--tier", default=os.environ.get("VERIF_TIER", "quick"))
    ap.add_argument("--replay", default=None)
    ap.add_argument("--workers", type=int,
                    default=int(os.environ.get("VERIF_WORKERS", "16")))
    ap.add_argument("--gen", default=None, help="only this generator (debug)")
    ap.add_argument("--limit", type=int, default=None)
    args = ap.parse_args(argv)
    pid = args.pid.upper()
    tier = args.tier
    if tier not in ("quick", "thorough"):
        raise SystemExit("tier must be quick or thorough")
    seed = int(os.environ.get("VERIF_SEED", "0"))
    t0 = time.time()

    ensure_deps()
    sys.path.insert(0, ROOT)
    mod = importlib.import_module("vf.workloads." + pid.lower())
    spec = getattr(mod, "SPEC", {})
    thash = tree_hash(repo_dir())
    bc = spec.get("boundscheck", {"quick": False, "thorough": True})[tier]
    env = worker_env(pid, bc, thash)
    os.makedirs(WORK, exist_ok=True)
    # purge numba caches of other tree versions, but only ones no run has touched for six
    # hours: a check of another tree (VERIF_REPO_DIR) may be running concurrently from this
    # same /verif, and deleting its cache under it makes numba raise FileNotFoundError
    now = time.time()
    for d in os.listdir(WORK):
        if d.startswith("nbcache-") and thash not in d:
            try:
                if now - os.path.getmtime(os.path.join(WORK, d)) > 6 * 3600:
                    shutil.rmtree(os.path.join(WORK, d), ignore_errors=True)
            except OSError:
                pass
    for d in os.listdir(WORK):
        # worker stderr logs of earlier runs that ended with alarms or inconclusive cases
        if not d.startswith("nbcache-"):
            try:
                if now - os.path.getmtime(os.path.join(WORK, d)) > 12 * 3600:
                    shutil.rmtree(os.path.join(WORK, d), ignore_errors=True)
            except OSError:
                pass
    for bcv in (0, 1):
        cur = os.path.join(WORK, "nbcache-%s-bc%d" % (thash, bcv))
        if os.path.isdir(cur):
            try:
                os.utime(cur, None)
            except OSError:
                pass
    workdir = os.path.join(WORK, "%s-%s-%d-%d" % (pid, tier, seed, os.getpid()))
    shutil.rmtree(workdir, ignore_errors=True)
    os.makedirs(workdir)

    if args.replay:
        with open(args.replay) as fh:
            rep = json.load(fh)
        cases = [rep["case"]]
        cases[0]["id"] = 0
    else:
        cases = mod.plan(tier, seed)
        if args.gen:
            cases = [c for c in cases if c["gen"] == args.gen]
        if args.limit:
            cases = cases[:args.limit]
        for i, c in enumerate(cases):
            c["id"] = i
    by_id = {c["id"]: c for c in cases}

    results = run_pool(pid, cases, env, workdir, min(args.workers, len(cases)),
                       spec.get("case_timeout", 120.0),
                       chunk_min=spec.get("chunk_min", 8))

    if os.environ.get("VERIF_DUMP"):
        with open(os.environ["VERIF_DUMP"], "w") as fh:
            for r in results:
                fh.write(json.dumps({"case": by_id[r["id"]], "result": r}, default=str) + "\n")
    # ---- aggregate -----------------------------------------------------
    from vf import findings as F
    known = [k for k in load_known() if k.get("property") == pid]
    known_open = {k["key"]: k for k in known if k.get("status") == "known"}
    counts = collections.Counter()
    mon = collections.Counter()
    sigs = set()
    per_gen = collections.defaultdict(collections.Counter)
    inconc_reasons = collections.Counter()
    violations = []
    known_hits = collections.OrderedDict()
    checks = 0
    samples = []
    tags = collections.Counter()
    obs_max = {}
    for r in sorted(results, key=lambda r: r["id"]):
        case = by_id[r["id"]]
        v = r.get("verdict", "inconclusive")
        for k, n in (r.get("mon") or {}).items():
            mon[k] += n
        checks += int(r.get("checks", 0))
        for t in r.get("tags") or []:
            tags[t] += 1
        if v != "inconclusive":
            for k, val in (r.get("obs") or {}).items():
                if isinstance(val, (int, float)) and not isinstance(val, bool) \
                        and val == val:
                    key = "%s:%s" % (case["gen"].split(":")[0], k)
                    obs_max[key] = max(obs_max.get(key, val), val)
        if v == "violated":
            key = F.classify(pid, case, r)
            if key is not None and key in known_open:
                v = "known"
                known_hits.setdefault(key, []).append(r)
            else:
                violations.append(r)
        counts[v] += 1
        per_gen[r.get("gen", case["gen"])][v] += 1
        if v in ("held", "violated", "known") and r.get("nontrivial", True):
            sigs.add(r.get("sig", ""))
        if v == "inconclusive":
            inconc_reasons[(r.get("why") or "")[:80]] += 1
        if v == "held" and len(samples) < 4 and r.get("nontrivial", True) \
                and all(s["gen"] != case["gen"] for s in samples):
            samples.append({"gen": case["gen"], "case": _slim(case),
                            "obs": r.get("obs"), "sig": r.get("sig")})

    out_lines = []
    replay_dir = os.path.join(os.environ.get("VERIF_REPLAY_DIR",
                                             os.path.join(ROOT, "replays")), pid)
    for key, lst in known_hits.items():
        out_lines.append("KNOWN-FINDING: property=%s %s (%s; %d case(s) this run)" % (
            pid, known_open[key]["what"], key, len(lst)))
    if violations:
        os.makedirs(replay_dir, exist_ok=True)
    seen_mech = collections.Counter()
    for r in violations:
        case = by_id[r["id"]]
        mech = r.get("mech") or r.get("sig", "")
        seen_mech[mech] += 1
        if seen_mech[mech] > 3:      # keep the report readable
            continue
        name = "%s-%d-%d.json" % (case["gen"], seed, case["id"])
        path = os.path.join(replay_dir, name)
        with open(path, "w") as fh:
            json.dump({"property": pid, "tier": tier, "seed": seed,
                       "case": case, "result": r}, fh, indent=1, default=str)
        out_lines.append("VIOLATION property=%s replay=%s" % (pid, path))
        out_lines.append("  why: %s" % (r.get("why") or "")[:600])
    conclusive = counts["held"] + counts["violated"] + counts["known"]
    need = spec.get("deciding_monitors", [])
    missing = [m for m in need if mon.get(m, 0) == 0]
    wall = time.time() - t0

    if args.replay:
        for r in results:
            print("replay verdict=%s why=%s obs=%s" % (
                r.get("verdict"), r.get("why"), json.dumps(r.get("obs"), default=str)))
        for l in out_lines:
            print(l)
        return 1 if violations else 0

    ev = {
        "property_id": pid, "tier": tier, "seed": seed,
        "level": "exploration",
        "coverage": {
            "evaluations": len(results),
            "distinct_nontrivial": len(sigs),
            "rule": spec.get("rule", ""),
            "samples": samples or [{"note": "no held non-trivial case"}],
            "oracle_checks": checks,
            "verdicts": dict(counts),
            "per_generator": {g: dict(c) for g, c in sorted(per_gen.items())},
            "monitor_events": dict(sorted(mon.items())),
            "case_tags": dict(sorted(tags.items())),
            "observed_max": {k: obs_max[k] for k in sorted(obs_max)},
            "deciding_monitors": need,
            "deciding_monitors_unreached": missing,
            "inconclusive_reasons": dict(inconc_reasons.most_common(8)),
            "known_findings_hit": {k: len(v) for k, v in known_hits.items()},
            "numba_boundscheck": bool(bc),
            "tree_hash": thash,
            "repo_dir": repo_dir(),
            "workers": min(args.workers, max(1, len(cases))),
        },
        "assumptions": spec.get("assumptions", []),
        "wall_s": round(wall, 2),
        "violations": len(violations),
    }
    evdir = os.environ.get("VERIF_EVIDENCE_DIR", os.path.join(ROOT, "evidence"))
    os.makedirs(evdir, exist_ok=True)
    if not (args.gen or args.limit):
        with open(os.path.join(evdir, pid + ".json"), "w") as fh:
            json.dump(ev, fh, indent=1, default=str)

    for l in out_lines:
        print(l)
    print("%s tier=%s seed=%d cases=%d held=%d known=%d violated=%d inconclusive=%d "
          "distinct=%d oracle_checks=%d wall=%.1fs" % (
              pid, tier, seed, len(results), counts["held"], counts["known"],
              len(violations), counts["inconclusive"], len(sigs), checks, wall))
    if mon:
        top = ", ".join("%s=%d" % kv for kv in sorted(mon.items())[:14])
        print("  monitors observed: " + top)
    if inconc_reasons:
        for why, n in inconc_reasons.most_common(4):
            print("  inconclusive x%d: %s" % (n, why))
    shutil.rmtree(workdir, ignore_errors=True) if not violations and \
        not counts["inconclusive"] else None
    if violations:
        return 1
    if conclusive == 0 or missing or len(sigs) < 2:
        print("INCONCLUSIVE property=%s: conclusive=%d unreached_monitors=%s" % (
            pid, conclusive, missing))
        return 2
    # too many inconclusive cases means the run did not explore what it claims
    if counts["inconclusive"] > max(3, 0.2 * len(results)):
        print("INCONCLUSIVE property=%s: %d of %d cases inconclusive" % (
            pid, counts["inconclusive"], len(results)))
        return 2
    return 0


def _slim(case):
    s = json.dumps(case, default=str)
    if len(s) > 1500:
        return {"gen": case["gen"], "id": case["id"], "truncated": s[:1500]}
    return case


if __name__ == "__main__":
    sys.exit(main())
