#!/usr/bin/env python3
"""Validate MANIFEST.json and evidence/*.json against the given schemas (python3-vt has jsonschema)."""
import glob
import json
import sys

import jsonschema

bad = 0
man = json.load(open("/verif/MANIFEST.json"))
jsonschema.validate(man, json.load(open("/root/.vp/MANIFEST.schema.json")))
props = [json.loads(l)["id"] for l in open("/verif/properties.jsonl")]
claimed = [c["property_id"] for c in man["checks"]]
na = [c["property_id"] for c in man.get("not_applicable", [])]
assert sorted(claimed + na) == sorted(props), (claimed, na)
es = json.load(open("/root/.vp/EVIDENCE.schema.json"))
for p in sorted(glob.glob("/verif/evidence/*.json")):
    try:
        jsonschema.validate(json.load(open(p)), es)
    except Exception as e:
        bad += 1
        print("INVALID", p, str(e)[:300])
print("manifest ok; claimed=%d not_applicable=%d; evidence files=%d invalid=%d" % (
    len(claimed), len(na), len(glob.glob('/verif/evidence/*.json')), bad))
sys.exit(1 if bad else 0)
