#!/usr/bin/env python3
"""Print a markdown table of /verif/seeded/*/meta.json (for DESIGN.md section 10.5)."""
import glob
import json
import os
import re

rows = []
for p in sorted(glob.glob("/verif/seeded/*/meta.json")):
    m = json.load(open(p))
    notes = m.get("needs_to_manifest", "")
    tag = m["id"].split("-")[1]
    # first descriptive line for this change in the sub-agent's notes
    what = ""
    letter = tag[0]
    mm = re.search(r"(?ims)^#+[^\n]*\b(?:change\s*)?%s\b[^\n]*\n(.*?)(?=^#+|\Z)" % letter, notes)
    body = mm.group(1) if mm else notes
    for line in body.splitlines():
        line = line.strip(" -*")
        if len(line) > 25:
            what = line
            break
    caught = ", ".join(m.get("caught_by") or []) or "MISSED"
    rows.append((m["id"], what[:170].replace("|", "/"), caught,
                 "yes" if m.get("note") else ""))
print("| id | change (from the author's notes) | caught by | check strengthened first |")
print("|---|---|---|---|")
for r in rows:
    print("| %s | %s | %s | %s |" % r)
