#!/usr/bin/env python3
"""Print a markdown table of /verif/seeded/*/meta.json (for DESIGN.md section 10.5).

The one-line description is taken from the sub-agent's own notes: the section whose heading
names this change (`## A`, `## Change B3 ...`, `patch_A2.diff`), and in it the first
"What / Change" line (or the heading itself when it already says what was changed).
"""
import glob
import json
import re


def section(notes, tag):
    """Text of the notes section that belongs to change `tag` (A, B, A2, B3 ...)."""
    heads = [(m.start(), m.group(0)) for m in re.finditer(r"(?m)^#{1,4}[^\n]*$", notes)]
    letter, rnd = tag[0], tag[1:]
    best = None
    for k, (pos, h) in enumerate(heads):
        hl = h.lower()
        hit = ("patch_%s.diff" % tag.lower()) in hl or re.search(
            r"\b(change\s+)?%s%s\b" % (letter.lower(), rnd), hl.replace("#", " "))
        if not hit and rnd:
            # notes of later rounds often name their sections just "A" / "B"
            hit = bool(re.search(r"^#+\s*(change\s+)?%s\b" % letter.lower(), hl)) or \
                ("patch_%s.diff" % letter.lower()) in hl
        if hit:
            end = heads[k + 1][0] if k + 1 < len(heads) else len(notes)
            best = (h, notes[pos + len(h):end])
            break
    return best


def describe(notes, tag):
    sec = section(notes, tag)
    if sec is None:
        body, head = notes, ""
    else:
        head, body = sec
    for line in body.splitlines():
        t = line.strip(" -*")
        if re.match(r"(?i)(what( was changed)?|change(d)?|file)\b\s*[:(]", t) and len(t) > 30:
            return re.sub(r"(?i)^(what( was changed)?|change(d)?)\s*:\s*", "", t)
    head = re.sub(r"^#+\s*", "", head)
    head = re.sub(r"\(?patch_\w+\.diff\)?", "", head).strip(" -:")
    if len(head) > 30:
        return head
    for line in body.splitlines():
        t = line.strip(" -*")
        if len(t) > 30:
            return t
    return head


def main():
    rows = []
    for p in sorted(glob.glob("/verif/seeded/*/meta.json")):
        m = json.load(open(p))
        tag = m["id"].split("-")[1]
        what = m.get("summary") or describe(m.get("needs_to_manifest", ""), tag)
        caught = ", ".join(m.get("caught_by") or []) or (
            "n/a (judged outside the statement)" if m.get("outside_statement") else "MISSED")
        retro = m.get("caught_before_round", "")
        rows.append((m["id"], what[:200].replace("|", "/"), caught, retro,
                     "yes" if m.get("note") else ""))
    print("| id | change (from its author's notes) | caught by | caught by the checks as they "
          "stood before that round | note in meta.json |")
    print("|---|---|---|---|---|")
    for r in rows:
        print("| %s | %s | %s | %s | %s |" % r)


if __name__ == "__main__":
    main()
