#!/usr/bin/env python3
"""Validate the monitors against deliberate property-breaking changes.

For each entry of MUTATIONS: copy /repo/sigpy to a scratch directory under /tmp,
apply the textual change, run the listed checks (quick tier) with VERIF_REPO_DIR
pointing at the copy, expect exit 1 with a VIOLATION line, remove the copy.
Usage: tools/muttest.py [name-substring ...]      (no evidence is written to /verif/evidence
by these runs: they use --limit 0-free full runs but a separate VERIF_EVIDENCE_DIR)
"""
import json
import os
import shutil
import subprocess
import sys
import time

ROOT = os.path.dirname(os.path.dirname(os.path.abspath(__file__)))
sys.path.insert(0, ROOT)
from tools.mutations import MUTATIONS   # noqa: E402


def run(name, file, old, new, props, tier="quick"):
    dst = "/tmp/vf-mut-%s" % name
    shutil.rmtree(dst, ignore_errors=True)
    os.makedirs(dst)
    shutil.copytree("/repo/sigpy", os.path.join(dst, "sigpy"),
                    ignore=shutil.ignore_patterns("__pycache__"))
    p = os.path.join(dst, file)
    s = open(p).read()
    if s.count(old) != 1:
        shutil.rmtree(dst)
        return {"name": name, "error": "pattern found %d times" % s.count(old)}
    open(p, "w").write(s.replace(old, new))
    out = {"name": name, "results": {}}
    for prop in props:
        env = dict(os.environ, VERIF_REPO_DIR=dst, VERIF_EVIDENCE_DIR="/tmp/vf-mut-evidence",
                   VERIF_REPLAY_DIR="/tmp/vf-mut-replays")
        t0 = time.time()
        r = subprocess.run([os.path.join(ROOT, "check"), prop, "--tier", tier],
                           stdout=subprocess.PIPE, stderr=subprocess.STDOUT, text=True, env=env)
        viol = [l for l in r.stdout.splitlines() if l.startswith("VIOLATION")]
        why = [l for l in r.stdout.splitlines() if l.startswith("  why:")]
        out["results"][prop] = {"exit": r.returncode, "violations": len(viol),
                                "first": (why[0][:200] if why else ""),
                                "wall": round(time.time() - t0, 1)}
    shutil.rmtree(dst, ignore_errors=True)
    return out


def main():
    sel = sys.argv[1:]
    res = []
    for m in MUTATIONS:
        if sel and not any(s in m["name"] for s in sel):
            continue
        r = run(m["name"], m["file"], m["old"], m["new"], m["props"])
        res.append(r)
        if "error" in r:
            print("%-34s ERROR %s" % (m["name"], r["error"]))
            continue
        for prop, v in r["results"].items():
            print("%-34s %s exit=%d violations=%d %5.1fs %s" % (
                m["name"], prop, v["exit"], v["violations"], v["wall"], v["first"][:110]))
        sys.stdout.flush()
    shutil.rmtree("/tmp/vf-mut-evidence", ignore_errors=True)
    shutil.rmtree("/tmp/vf-mut-replays", ignore_errors=True)
    with open(os.path.join(ROOT, "tools", "muttest_last.json"), "w") as fh:
        json.dump(res, fh, indent=1)


if __name__ == "__main__":
    main()
