#!/usr/bin/env python3
"""Re-base the stored seeded patches onto the current HEAD of /repo.

The sub-agents wrote their patches against the HEAD of /repo at the time of their round;
later `fix:` commits touch some of the same files.  For every /verif/seeded/*/patch.diff this
tool applies the patch to a scratch worktree of the current HEAD (plain `git apply`, else a
three-way merge on the recorded blobs), regenerates the diff against HEAD and stores it as
patch.diff (the agent's original is kept as patch.orig.diff when it differs), and records the
base commit in meta.json["patch_base"].  With --demo it also re-runs the demonstration on the
clean and on the patched tree.  Patches that conflict are listed for manual porting.
"""
import glob
import json
import os
import shutil
import subprocess
import sys

ROOT = os.path.dirname(os.path.dirname(os.path.abspath(__file__)))
PY = "/venv/bin/python"


def sh(cmd, **kw):
    r = subprocess.run(cmd, stdout=subprocess.PIPE, stderr=subprocess.STDOUT, text=True, **kw)
    return r.returncode, r.stdout


def main():
    demo = "--demo" in sys.argv
    only = [a for a in sys.argv[1:] if not a.startswith("--")]
    rc, head = sh(["git", "-C", "/repo", "rev-parse", "--short", "HEAD"])
    head = head.strip()
    wt = "/tmp/vf-refresh-wt"
    sh(["git", "-C", "/repo", "worktree", "remove", "--force", wt])
    shutil.rmtree(wt, ignore_errors=True)
    sh(["git", "-C", "/repo", "worktree", "add", "-q", "--detach", wt, "HEAD"])
    bad = []
    try:
        for mp in sorted(glob.glob(os.path.join(ROOT, "seeded", "*", "meta.json"))):
            d = os.path.dirname(mp)
            m = json.load(open(mp))
            if only and m["id"] not in only:
                continue
            patch = os.path.join(d, "patch.diff")
            sh(["git", "-C", wt, "checkout", "-q", "."])
            sh(["git", "-C", wt, "clean", "-fdq"])
            rc, out = sh(["git", "-C", wt, "apply", patch])
            how = "clean"
            if rc:
                rc, out = sh(["git", "-C", wt, "apply", "--3way", patch])
                sh(["git", "-C", wt, "reset", "-q"])
                how = "3way"
            if rc:
                bad.append(m["id"])
                print(m["id"], "CONFLICT", out.strip().splitlines()[-1][:120])
                continue
            rc, new = sh(["git", "-C", wt, "diff", "HEAD"])
            old = open(patch).read()
            if new.strip() != old.strip():
                if not os.path.exists(os.path.join(d, "patch.orig.diff")):
                    shutil.copy(patch, os.path.join(d, "patch.orig.diff"))
                open(patch, "w").write(new)
            m["patch_base"] = head
            if demo:
                env = dict(os.environ, PYTHONPATH=wt, PYTHONDONTWRITEBYTECODE="1",
                           NUMBA_CACHE_DIR=os.path.join(wt, ".nbcache"),
                           OMP_NUM_THREADS="1", OPENBLAS_NUM_THREADS="1")
                r1, _ = sh([PY, os.path.join(d, "demo.py")], cwd=wt, env=env, timeout=900)
                sh(["git", "-C", wt, "checkout", "-q", "."])
                r0, _ = sh([PY, os.path.join(d, "demo.py")], cwd=wt, env=env, timeout=900)
                m["demo_on_patch_base"] = {"clean_exit": r0, "patched_exit": r1}
                if r0 != 0 or r1 == 0:
                    print(m["id"], "DEMO", r0, r1)
            json.dump(m, open(mp, "w"), indent=1)
            print(m["id"], how, flush=True)
    finally:
        sh(["git", "-C", "/repo", "worktree", "remove", "--force", wt])
        shutil.rmtree(wt, ignore_errors=True)
    print("conflicts:", bad)


if __name__ == "__main__":
    main()
