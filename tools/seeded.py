#!/usr/bin/env python3
"""Confirm a property-breaking change written by an independent sub-agent and keep it.

  tools/seeded.py ingest <PROP> <A|B|...> <src_dir> [--props C01,C03] [--thorough]

src_dir holds patch_<X>.diff, demo_<X>.py and notes.md.  Steps (all in a scratch git
worktree of /repo under /tmp, removed afterwards; /repo itself is never modified):
  1. the patch applies to the clean checkout;
  2. the demonstration exits 0 without the patch and non-zero with it;
  3. the repository's own test suite still passes with the patch;
  4. the listed checks (default: the property's own) are run with VERIF_REPO_DIR pointing at
     the patched worktree: quick tier, then thorough if quick misses and --thorough is given.
Result: /verif/seeded/<PROP>-<X>/{patch.diff, demo.py, meta.json}.
"""
import argparse
import json
import os
import shutil
import subprocess
import sys
import time

ROOT = os.path.dirname(os.path.dirname(os.path.abspath(__file__)))
PY = "/venv/bin/python"


def sh(cmd, cwd=None, env=None, timeout=3600):
    r = subprocess.run(cmd, cwd=cwd, env=env, stdout=subprocess.PIPE, stderr=subprocess.STDOUT,
                       text=True, timeout=timeout)
    return r.returncode, r.stdout


def run_demo(wt, demo):
    env = dict(os.environ, PYTHONPATH=wt, PYTHONDONTWRITEBYTECODE="1",
               NUMBA_CACHE_DIR=os.path.join(wt, ".nbcache"))
    try:
        return sh([PY, demo], cwd=wt, env=env, timeout=900)
    except subprocess.TimeoutExpired:
        return 124, "timeout"


def main():
    ap = argparse.ArgumentParser()
    ap.add_argument("cmd")
    ap.add_argument("prop")
    ap.add_argument("tag")
    ap.add_argument("src")
    ap.add_argument("--props", default=None)
    ap.add_argument("--thorough", action="store_true")
    ap.add_argument("--skip-tests", action="store_true")
    a = ap.parse_args()
    prop, tag = a.prop.upper(), a.tag
    patch = os.path.join(a.src, "patch_%s.diff" % tag)
    demo = os.path.join(a.src, "demo_%s.py" % tag)
    name = "%s-%s" % (prop, tag)
    wt = "/tmp/vf-seed-%s" % name
    sh(["git", "-C", "/repo", "worktree", "remove", "--force", wt])
    shutil.rmtree(wt, ignore_errors=True)
    rc, out = sh(["git", "-C", "/repo", "worktree", "add", "-q", "--detach", wt, "HEAD"])
    meta = {"property": prop, "id": name, "confirmed": False, "ran": []}
    try:
        if rc:
            raise SystemExit("worktree: " + out)
        rc0, out0 = run_demo(wt, demo)
        meta["demo_without_patch_exit"] = rc0
        rc, out = sh(["git", "-C", wt, "apply", patch])
        if rc:
            # written against an earlier HEAD of /repo: three-way merge on the recorded blobs
            rc, out = sh(["git", "-C", wt, "apply", "--3way", patch])
            meta["patch_applied_with_3way"] = rc == 0
            sh(["git", "-C", wt, "reset", "-q"])
        meta["patch_applies"] = rc == 0
        if rc:
            print(name, "patch does not apply:", out[:300])
            return finish(meta, name, patch, demo, a.src, wt)
        rc1, out1 = run_demo(wt, demo)
        meta["demo_with_patch_exit"] = rc1
        meta["demo_with_patch_tail"] = out1[-400:]
        if not a.skip_tests:
            env = dict(os.environ, PYTHONPATH=wt, OMP_NUM_THREADS="1", OPENBLAS_NUM_THREADS="1",
                       MKL_NUM_THREADS="1", NUMBA_NUM_THREADS="1")
            t0 = time.time()
            rc, out = sh([PY, "-m", "pytest", "-q", "-p", "no:cacheprovider", "--timeout=900",
                          "--continue-on-collection-errors", "tests"], cwd=wt, env=env)
            tail = out.strip().splitlines()[-1] if out.strip() else ""
            meta["tests_tail"] = tail
            meta["tests_pass"] = ("125 passed" in tail) and ("failed" not in tail)
            meta["tests_wall_s"] = round(time.time() - t0)
        meta["confirmed"] = bool(rc0 == 0 and rc1 != 0 and meta.get("tests_pass", True))
        props = (a.props.split(",") if a.props else [prop])
        env = dict(os.environ, VERIF_REPO_DIR=wt, VERIF_EVIDENCE_DIR="/tmp/vf-seed-ev-" + name,
                   VERIF_REPLAY_DIR="/tmp/vf-seed-rp-" + name)
        meta["checks"] = {}
        for p in props:
            for tier in (["quick", "thorough"] if a.thorough else ["quick"]):
                t0 = time.time()
                rc, out = sh([os.path.join(ROOT, "check"), p, "--tier", tier], env=env,
                             timeout=7200)
                viol = [l for l in out.splitlines() if l.startswith("VIOLATION")]
                why = [l.strip() for l in out.splitlines() if l.startswith("  why:")]
                meta["checks"]["%s/%s" % (p, tier)] = {
                    "exit": rc, "violations": len(viol), "first_why": (why[0][:300] if why else ""),
                    "wall_s": round(time.time() - t0, 1)}
                meta["ran"].append("VERIF_REPO_DIR=<patched worktree> ./check %s --tier %s -> "
                                   "exit %d" % (p, tier, rc))
                if rc == 1:
                    break
        meta["caught_by"] = sorted(k for k, v in meta["checks"].items() if v["exit"] == 1)
        return finish(meta, name, patch, demo, a.src, wt)
    finally:
        sh(["git", "-C", "/repo", "worktree", "remove", "--force", wt])
        shutil.rmtree(wt, ignore_errors=True)
        shutil.rmtree("/tmp/vf-seed-ev-" + name, ignore_errors=True)
        shutil.rmtree("/tmp/vf-seed-rp-" + name, ignore_errors=True)


def finish(meta, name, patch, demo, src, wt):
    dst = os.path.join(ROOT, "seeded", name)
    notes = os.path.join(src, "notes.md")
    if meta.get("confirmed"):
        os.makedirs(dst, exist_ok=True)
        shutil.copy(patch, os.path.join(dst, "patch.diff"))
        shutil.copy(demo, os.path.join(dst, "demo.py"))
        if os.path.exists(notes):
            meta["needs_to_manifest"] = open(notes).read()[:4000]
        with open(os.path.join(dst, "meta.json"), "w") as fh:
            json.dump(meta, fh, indent=1)
    print(json.dumps({k: meta.get(k) for k in (
        "id", "confirmed", "patch_applies", "demo_without_patch_exit", "demo_with_patch_exit",
        "tests_tail", "caught_by")}, indent=None))
    for k, v in (meta.get("checks") or {}).items():
        print("   ", k, v)
    return 0


if __name__ == "__main__":
    sys.exit(main())
