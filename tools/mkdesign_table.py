#!/usr/bin/env python3
"""Splice the detection matrix (seeded changes + own mutations) into DESIGN.md section 10.5,
between the markers <!-- seeded-table-begin --> / <!-- seeded-table-end -->."""
import collections
import glob
import io
import json
import os
import sys
from contextlib import redirect_stdout

ROOT = os.path.dirname(os.path.dirname(os.path.abspath(__file__)))
sys.path.insert(0, ROOT)
from tools import seeded_table            # noqa: E402


def main():
    buf = io.StringIO()
    with redirect_stdout(buf):
        seeded_table.main()
    table = buf.getvalue()
    metas = [json.load(open(p)) for p in sorted(glob.glob(os.path.join(ROOT, "seeded", "*",
                                                                       "meta.json")))]
    per_round = collections.OrderedDict()
    for m in metas:
        tag = m["id"].split("-")[1]
        rnd = tag[1:] or "1"
        d = per_round.setdefault(rnd, collections.Counter())
        d["kept"] += 1
        d["caught"] += bool(m.get("caught_by"))
        if "caught_before_round" in m:
            d["before:" + m["caught_before_round"]] += 1
        d["noted"] += bool(m.get("note"))
    lines = ["Summary per round (kept = confirmed by `tools/seeded.py`):", ""]
    lines.append("| round | kept | caught by the final checks | before the round: yes / no / "
                 "inconclusive | with a note (check changed because of it) |")
    lines.append("|---|---|---|---|---|")
    for rnd, d in per_round.items():
        before = "%d / %d / %d" % (d["before:yes"], d["before:no"], d["before:inconclusive"]) \
            if any(k.startswith("before:") for k in d) else "n/a (see notes)"
        lines.append("| %s | %d | %d | %s | %d |" % (rnd, d["kept"], d["caught"], before,
                                                     d["noted"]))
    lines.append("")
    mt = os.path.join(ROOT, "tools", "muttest_last.json")
    if os.path.exists(mt):
        res = json.load(open(mt))
        ok = [r for r in res if "results" in r and any(v["exit"] == 1
                                                       for v in r["results"].values())]
        lines.append("Own mutations (`tools/muttest_last.json`): %d applied, %d reported by at "
                     "least one of the checks they name; not reported: %s." % (
                         len(res), len(ok),
                         ", ".join(r["name"] for r in res if r not in ok) or "none"))
        lines.append("")
        lines.append("| own mutation | checks run -> exit code (1 = VIOLATION reported) |")
        lines.append("|---|---|")
        for r in res:
            if "results" in r:
                lines.append("| %s | %s |" % (r["name"], ", ".join(
                    "%s -> %d" % (k, v["exit"]) for k, v in r["results"].items())))
            else:
                lines.append("| %s | not applied: %s |" % (r["name"], r.get("error")))
        lines.append("")
    block = "\n".join(lines) + "\n" + table
    p = os.path.join(ROOT, "DESIGN.md")
    s = open(p).read()
    a, b = "<!-- seeded-table-begin -->", "<!-- seeded-table-end -->"
    i, j = s.index(a) + len(a), s.index(b)
    s = s[:i] + "\n" + block + s[j:]
    open(p, "w").write(s)
    print("spliced %d seeded rows" % len(metas))


if __name__ == "__main__":
    main()
