"""Deliberate property-breaking changes used to validate the monitors (DESIGN.md section 8).
Each compiles and is meant to pass the repository's own tests."""

MUTATIONS = [
    # ---- C01
    dict(name="c01-multiply-adjoint-no-conj", file="sigpy/linop.py", props=["C01"],
         old="        M = Multiply(self.oshape, self.mult, conj=not self.conj)",
         new="        M = Multiply(self.oshape, self.mult, conj=self.conj)"),
    dict(name="c01-resize-adjoint-shifts", file="sigpy/linop.py", props=["C01"],
         old="            self.ishape, self.oshape, ishift=self.oshift, oshift=self.ishift\n",
         new="            self.ishape, self.oshape, ishift=self.ishift, oshift=self.oshift\n"),
    dict(name="c01-conj-adjoint", file="sigpy/linop.py", props=["C01"],
         old="        return Conj(self.A.H)", new="        return self.A.H"),
    # ---- C02
    dict(name="c02-nufft-no-copy", file="sigpy/fourier.py", props=["C02"],
         old="    output = input.copy()\n\n    # Apodize",
         new="    output = input\n\n    # Apodize"),
    dict(name="c02-l2reg-no-copy", file="sigpy/prox.py", props=["C02"],
         old="            output = input.copy()\n            if self.y is not None:",
         new="            output = input\n            if self.y is not None:"),
    dict(name="c02-conj-once", file="sigpy/linop.py", props=["C02", "C01"],
         old="        with device:\n            return xp.conj(output)\n",
         new="        with device:\n            return output\n"),
    # ---- C03
    dict(name="c03-compose-order", file="sigpy/linop.py", props=["C03"],
         old='        for linop in self.linops[::-1]:\n            output = linop.apply(output)',
         new='        for linop in (self.linops[::-1] if len(set(map(str, [l.ishape for l in self.linops] + [l.oshape for l in self.linops]))) > 1 else self.linops):\n            output = linop.apply(output)'),
    dict(name="c03-rmul-conj-scalar", file="sigpy/linop.py", props=["C03"],
         old="        if np.isscalar(input):\n            M = Multiply(self.oshape, input)\n"
             "            return Compose([M, self])",
         new="        if np.isscalar(input):\n            M = Multiply(self.oshape, "
             "np.conj(input))\n            return Compose([M, self])"),
    dict(name="c03-compose-check-removed", file="sigpy/linop.py", props=["C03"],
         old="        if linop1.ishape != linop2.oshape:",
         new="        if len(linop1.ishape) != len(linop2.oshape):"),
    # ---- C04
    dict(name="c04-circshift-normal", file="sigpy/linop.py", props=["C04"],
         old='        return Circshift(\n            self.ishape, [-int(s) for s in self.shift], axes=self.axes\n        )\n\n    def _normal_linop(self):\n        return Identity(self.ishape)',
         new='        return Circshift(\n            self.ishape, [-int(s) for s in self.shift], axes=self.axes\n        )\n\n    def _normal_linop(self):\n        return Circshift(self.ishape, self.shift, axes=self.axes)'),
    dict(name="c04-toeplitz-factor", file="sigpy/fourier.py", props=["C04"],
         old="        psf = fft(psf, axes=fft_axes, norm=None) * (2**ndim)",
         new="        psf = fft(psf, axes=fft_axes, norm=None) * 2"),
    # ---- C05
    dict(name="c05-shift-swap", file="sigpy/fourier.py", props=["C05"],
         old="    tmp = util.resize(input, oshape)\n    tmp = xp.fft.ifftshift(tmp, axes=axes)\n"
             "    tmp = xp.fft.fftn(tmp, axes=axes, norm=norm)\n"
             "    output = xp.fft.fftshift(tmp, axes=axes)",
         new="    tmp = util.resize(input, oshape)\n    tmp = xp.fft.fftshift(tmp, axes=axes)\n"
             "    tmp = xp.fft.fftn(tmp, axes=axes, norm=norm)\n"
             "    output = xp.fft.ifftshift(tmp, axes=axes)"),
    dict(name="c05-ifft-norm-ignored", file="sigpy/fourier.py", props=["C05"],
         old="        output = xp.fft.ifftn(input, s=oshape, axes=axes, norm=norm)",
         new="        output = xp.fft.ifftn(input, s=oshape, axes=axes, norm=\"ortho\")"),
    # ---- C06
    dict(name="c06-apodize-center", file="sigpy/fourier.py", props=["C06"],
         old="            beta**2 - (np.pi * width * (idx - i // 2) / os_i) ** 2",
         new="            beta**2 - (np.pi * width * (idx - (i - 1) // 2) / os_i) ** 2"),
    dict(name="c06-scale-coord-shift", file="sigpy/fourier.py", props=["C06"],
         old="        shift = ceil(oversamp * shape[i]) // 2",
         new="        shift = (ceil(oversamp * shape[i]) + 1) // 2"),
    # ---- C07
    dict(name="c07-upper-edge-ceil", file="sigpy/interp.py", props=["C07"],
         old="            x1 = np.floor(kx + width[-1] / 2)\n\n            for x in range(x0, x1 + 1):\n"
             "                w = kernel((x - kx) / (width[-1] / 2), param[-1])\n\n"
             "                for b in range(batch_size):\n                    output[b, i] +=",
         new="            x1 = np.ceil(kx + width[-1] / 2) - 1\n\n            for x in range(x0, x1 + 1):\n"
             "                w = kernel((x - kx) / (width[-1] / 2), param[-1])\n\n"
             "                for b in range(batch_size):\n                    output[b, i] +="),
    dict(name="c07-no-wrap-2d", file="sigpy/interp.py", props=["C07"],
         old="                        output[b, i] += w * input[b, y % ny, x % nx]",
         new="                        output[b, i] += w * input[b, y % ny, x]"),
    # ---- C08
    dict(name="c08-data-adjoint-convolve", file="sigpy/conv.py", props=["C08"],
         old="                data[k, i] += signal.correlate(\n                    output_kj, filt[j, i], mode=adjoint_mode\n                )",
         new="                data[k, i] += signal.correlate(\n                    output_kj, filt[j, i].conj(), mode=adjoint_mode\n                )"),
    # ---- C09
    dict(name="c09-resize-center", file="sigpy/util.py", props=["C09", "C05"],
         old="        ishift = [max(i // 2 - o // 2, 0) for i, o in zip(ishape1, oshape1)]",
         new="        ishift = [max((i + 1) // 2 - (o + 1) // 2, 0) for i, o in zip(ishape1, oshape1)]"),
    dict(name="c09-blocks-guard", file="sigpy/block.py", props=["C09"],
         old="                nx = (ix - bx) // Sx\n                if nx >= 0 and nx < Nx:\n                    output[b, ix] += input[b, nx, bx]",
         new="                nx = (ix - bx) // Sx\n                if nx >= 0 and nx <= Nx - 1 - (Nx > 3):\n                    output[b, ix] += input[b, nx, bx]"),
    # ---- C10
    dict(name="c10-iwt-mode", file="sigpy/wavelet.py", props=["C10"],
         old="    output = pywt.waverecn(input, wave_name, mode=\"zero\", axes=axes)",
         new="    output = pywt.waverecn(input, wave_name, mode=\"periodization\", axes=axes)"),
    # ---- C11
    dict(name="c11-l1reg-no-alpha", file="sigpy/prox.py", props=["C11"],
         old="            return thresh.soft_thresh(self.lamda * alpha, input)",
         new="            return thresh.soft_thresh(self.lamda, input)"),
    dict(name="c11-conj-no-inv-alpha", file="sigpy/prox.py", props=["C11"],
         old="            return input - alpha * self.prox(1 / alpha, input / alpha)",
         new="            return input - alpha * self.prox(alpha, input / alpha)"),
    dict(name="c11-l1proj-flatten", file="sigpy/thresh.py", props=["C11"],
         old="        return input.reshape(shape)\n    else:",
         new="        return input\n    else:"),
    dict(name="c11-psd-eig", file="sigpy/thresh.py", props=["C11"],
         old="xp.linalg.eigh(", new="xp.linalg.eig("),
]

MUTATIONS += [
    # ---- C12
    dict(name="c12-beta-inverted", file="sigpy/alg.py", props=["C12"],
         old="                beta = rznew / self.rzold", new="                beta = self.rzold / rznew"),
    dict(name="c12-precond-on-p", file="sigpy/alg.py", props=["C12"],
         old="                util.xpay(self.p, beta, z)", new="                util.xpay(self.p, beta, self.r)"),
    dict(name="c12-no-breakdown-stop", file="sigpy/alg.py", props=["C12"],
         old="            if pAp <= 0:\n                self.not_positive_definite = True\n                return",
         new="            if pAp == 0:\n                self.not_positive_definite = True\n                return"),
    dict(name="c12-resid-stale", file="sigpy/alg.py", props=["C12"],
         old="                util.axpy(self.r, -self.alpha, Ap)\n",
         new="                util.axpy(self.r, -self.alpha, Ap)\n                self.r = self.r.copy() * (1 + 1e-6)\n"),
    # ---- C13
    dict(name="c13-momentum", file="sigpy/alg.py", props=["C13"],
         old="self.x + ((t_old - 1) / self.t) * (self.x - x_old)",
         new="self.x + (t_old / self.t) * (self.x - x_old)"),
    dict(name="c13-no-extrapolation", file="sigpy/alg.py", props=["C13"],
         old='            x_ext = self.x + theta * x_diff',
         new='            x_ext = self.x + 0 * theta * x_diff'),
    dict(name="c13-dual-step-tau", file="sigpy/alg.py", props=["C13"],
         old="        backend.copyto(self.u, self.proxfc(self.sigma, self.u))",
         new="        backend.copyto(self.u, self.proxfc(self.tau, self.u))"),
    dict(name="c13-tau-not-rescaled", file="sigpy/alg.py", props=["C13"],
         old="                self.tau = self.tau * theta\n",
         new="                self.tau = self.tau * 1\n"),
    dict(name="c13-fista-t", file="sigpy/alg.py", props=["C13"],
         old="                self.t = (1 + (1 + 4 * t_old**2) ** 0.5) / 2",
         new="                self.t = (1 + (1 + 2 * t_old**2) ** 0.5) / 2"),
]

MUTATIONS += [
    # ---- C14
    dict(name="c14-cg-drop-lamz", file="sigpy/app.py", props=["C14"],
         old="            if self.z is not None:\n                # A.H may return (a view of) y itself: do not accumulate in place.\n                AHy = AHy + self.lamda * self.z\n\n        self.alg = ConjugateGradient(",
         new="            if self.z is not None:\n                # A.H may return (a view of) y itself: do not accumulate in place.\n                AHy = AHy + 0 * self.z\n\n        self.alg = ConjugateGradient("),
    dict(name="c14-admm-rho-GHG", file="sigpy/app.py", props=["C14"],
         old="                AHA += self.rho * self.G.H * self.G",
         new="                AHA += self.G.H * self.G"),
    dict(name="c14-gm-z-sign", file="sigpy/app.py", props=["C14"],
         old="                        util.axpy(gradf_x, self.lamda, x - self.z)",
         new="                        util.axpy(gradf_x, self.lamda, x + self.z)"),
    # ---- C15
    dict(name="c15-gs-double-increment", file="sigpy/alg.py", props=["C15"],
         old="            xp.absolute(xp.absolute(self.A * self.x) - self.y)\n        )\n",
         new="            xp.absolute(xp.absolute(self.A * self.x) - self.y)\n        )\n        self.iter += 1\n"),
    dict(name="c15-pdhg-primal-resid", file="sigpy/alg.py", props=["C15"],
         old="        self.resid = (resid_x**2 + resid_u**2 + resid_ext**2) ** 0.5",
         new="        self.resid = resid_x"),
    dict(name="c15-cg-done-early", file="sigpy/alg.py", props=["C15", "C12"],
         old="            or self.resid <= self.tol\n        )\n\n\nclass PrimalDualHybridGradient",
         new="            or self.resid <= max(self.tol, 1e-3)\n        )\n\n\nclass PrimalDualHybridGradient"),
    # ---- C16
    dict(name="c16-weights-no-sqrt", file="sigpy/mri/linop.py", props=["C16"],
         old="            P = sp.linop.Multiply(F.oshape, weights**0.5)\n\n        A = P * A\n\n    if comm is not None:\n        C = sp.linop.AllReduceAdjoint(ishape, comm, in_place=True)\n        A = A * C\n\n    A.repr_str",
         new="            P = sp.linop.Multiply(F.oshape, weights)\n\n        A = P * A\n\n    if comm is not None:\n        C = sp.linop.AllReduceAdjoint(ishape, comm, in_place=True)\n        A = A * C\n\n    A.repr_str"),
    dict(name="c16-batch-overlap", file="sigpy/mri/linop.py", props=["C16"],
         old="                    mps[c * coil_batch_size : ((c + 1) * coil_batch_size)],\n                    coord=coord,",
         new="                    mps[max(c * coil_batch_size - (num_coils % coil_batch_size > 0 and c == num_coil_batches - 1), 0) : max(c * coil_batch_size - (num_coils % coil_batch_size > 0 and c == num_coil_batches - 1), 0) + min(coil_batch_size, num_coils - c * coil_batch_size)],\n                    coord=coord,"),
    # ---- C17
    dict(name="c17-phase-ref-coil1", file="sigpy/mri/app.py", props=["C17"],
         old='            mps = mps * xp.conj(mps[0] / xp.abs(mps[0]))',
         new='            mps = mps * xp.conj(mps[-1] / xp.abs(mps[-1]))'),
    dict(name="c17-crop-ge", file="sigpy/mri/app.py", props=["C17"],
         old='            mps = mps * (max_eig > self.crop)',
         new='            mps = mps * (max_eig >= self.crop)'),
    # ---- C18
    dict(name="c18-calib-shift", file="sigpy/mri/samp.py", props=["C18"],
         old='        int(nx / 2 - calib[-1] / 2) : int(nx / 2 + calib[-1] / 2),\n    ] = 1',
         new='        int(nx / 2 - calib[-1] / 2) + 1 : int(nx / 2 + calib[-1] / 2) + 1,\n    ] = 1'),
    dict(name="c18-rng-not-restored", file="sigpy/mri/samp.py", props=["C18"],
         old="    if seed is not None:\n        np.random.set_state(rand_state)",
         new="    if seed is not None and np.sum(mask) % 7:\n        np.random.set_state(rand_state)\n    else:\n        np.random.random()"),
    dict(name="c18-crop-le", file="sigpy/mri/samp.py", props=["C18"],
         old='            keep = r < 1',
         new='            keep = r <= 1'),
    # ---- C19
    dict(name="c19-abrm-conj-sign", file="sigpy/mri/rf/sim.py", props=["C19"],
         old="            at = av * a - xp.conj(bv) * b\n            bt = bv * a + xp.conj(av) * b\n            a = at\n            b = bt\n\n        if balanced:",
         new="            at = av * a + xp.conj(bv) * b\n            bt = bv * a + xp.conj(av) * b\n            a = at\n            b = bt\n\n        if balanced:"),
    dict(name="c19-ab2rf-angle", file="sigpy/mri/rf/slr.py", props=["C19"],
         old="        rf[ii] = 2 * theta * np.exp(1j * psi)",
         new="        rf[ii] = 2 * np.sin(theta) * np.exp(1j * psi)"),
    dict(name="c19-hp-half-phase", file="sigpy/mri/rf/sim.py", props=["C19"],
         old="        z = xp.exp(1j / 2 * (xx * xp.sum(gamgdt, axis=0) + Nt * dom0dt))\n        a = a * z\n        b = b * z",
         new="        z = xp.exp(1j / 2 * (xx * xp.sum(gamgdt, axis=0) + Nt * dom0dt))\n        a = a * z\n        b = b * xp.conj(z)"),
    # ---- C20
    dict(name="c20-ramp-floor", file="sigpy/mri/rf/trajgrad.py", props=["C20"],
         old="                ramppts = int(np.ceil(newgmax / dgdt / dt))",
         new="                ramppts = max(int(np.floor(newgmax / dgdt / dt)), 1)"),
    dict(name="c20-mintrap-ramp-round", file="sigpy/mri/rf/trajgrad.py", props=["C20"],
         old="        ramppts = int(np.ceil(np.max(flat) / dgdt / dt))\n        ramp_up = (\n            np.linspace(0, ramppts, num=ramppts + 1) / ramppts * np.max(flat)\n        )",
         new="        ramppts = max(int(np.round(np.max(flat) / dgdt / dt)), 1)\n        ramp_up = (\n            np.linspace(0, ramppts, num=ramppts + 1) / ramppts * np.max(flat)\n        )"),
]
