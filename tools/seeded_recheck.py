#!/usr/bin/env python3
"""Re-run checks against a kept seeded change (after the checks were strengthened).

  tools/seeded_recheck.py <ID> [--props C01,C10] [--tier quick|thorough] [--note "..."]

Applies /verif/seeded/<ID>/patch.diff to a scratch worktree of /repo's HEAD (removed
afterwards), runs the named checks (default: the change's own property) against it and
updates meta.json (checks, caught_by and, when given, the note saying what was strengthened).
"""
import argparse
import json
import os
import shutil
import subprocess
import sys
import time

ROOT = os.path.dirname(os.path.dirname(os.path.abspath(__file__)))


def sh(cmd, **kw):
    r = subprocess.run(cmd, stdout=subprocess.PIPE, stderr=subprocess.STDOUT, text=True, **kw)
    return r.returncode, r.stdout


def main():
    ap = argparse.ArgumentParser()
    ap.add_argument("id")
    ap.add_argument("--props", default=None)
    ap.add_argument("--tier", default="quick")
    ap.add_argument("--seed", default=None)
    ap.add_argument("--note", default=None)
    a = ap.parse_args()
    d = os.path.join(ROOT, "seeded", a.id)
    mp = os.path.join(d, "meta.json")
    m = json.load(open(mp))
    wt = "/tmp/vf-rechk-%s" % a.id
    sh(["git", "-C", "/repo", "worktree", "remove", "--force", wt])
    shutil.rmtree(wt, ignore_errors=True)
    sh(["git", "-C", "/repo", "worktree", "add", "-q", "--detach", wt, "HEAD"])
    try:
        patch = os.path.join(d, "patch.diff")
        rc, out = sh(["git", "-C", wt, "apply", patch])
        if rc:
            rc, out = sh(["git", "-C", wt, "apply", "--3way", patch])
            sh(["git", "-C", wt, "reset", "-q"])
        if rc:
            print(a.id, "patch does not apply:", out[-300:])
            return 2
        env = dict(os.environ, VERIF_REPO_DIR=wt, VERIF_EVIDENCE_DIR="/tmp/vf-rechk-ev-" + a.id,
                   VERIF_REPLAY_DIR="/tmp/vf-rechk-rp-" + a.id)
        if a.seed is not None:
            env["VERIF_SEED"] = a.seed
        props = a.props.split(",") if a.props else [m["property"]]
        m.setdefault("checks", {})
        for p in props:
            t0 = time.time()
            rc, out = sh([os.path.join(ROOT, "check"), p, "--tier", a.tier], env=env,
                         timeout=14400)
            viol = [l for l in out.splitlines() if l.startswith("VIOLATION")]
            why = [l.strip() for l in out.splitlines() if l.startswith("  why:")]
            key = "%s/%s" % (p, a.tier)
            m["checks"][key] = {"exit": rc, "violations": len(viol),
                                "first_why": (why[0][:300] if why else ""),
                                "wall_s": round(time.time() - t0, 1)}
            m.setdefault("ran", []).append(
                "VERIF_REPO_DIR=<patched worktree> ./check %s --tier %s -> exit %d (re-check)" % (
                    p, a.tier, rc))
            print(a.id, key, m["checks"][key], flush=True)
        m["caught_by"] = sorted(k for k, v in m["checks"].items() if v["exit"] == 1)
        if a.note:
            m["note"] = a.note
        json.dump(m, open(mp, "w"), indent=1)
    finally:
        sh(["git", "-C", "/repo", "worktree", "remove", "--force", wt])
        shutil.rmtree(wt, ignore_errors=True)
        shutil.rmtree("/tmp/vf-rechk-ev-" + a.id, ignore_errors=True)
        shutil.rmtree("/tmp/vf-rechk-rp-" + a.id, ignore_errors=True)
    return 0


if __name__ == "__main__":
    sys.exit(main())
