#!/usr/bin/env python3
"""Would the checks *as they stood before a round of seeded changes* have caught them?

  tools/seeded_retro.py <verif-commit> <suffix>      e.g.  203beea 3   /   dedea24 2

Between launching a round of sub-agents and ingesting their changes the checks were widened
(partly after reading the agents' summaries), so "caught" in meta.json describes the final
checks.  This tool replays every kept change of the round (ids ending in the suffix) against
a checkout of /verif at the given earlier commit and records the outcome in
meta.json["caught_before_round"] ("yes" / "no" / "inconclusive"), so that DESIGN.md can say
which detections were owed to the later widening.  Scratch worktrees live under /tmp and are
removed; /repo is never modified.
"""
import glob
import json
import os
import shutil
import subprocess
import sys

ROOT = os.path.dirname(os.path.dirname(os.path.abspath(__file__)))


def sh(cmd, **kw):
    r = subprocess.run(cmd, stdout=subprocess.PIPE, stderr=subprocess.STDOUT, text=True, **kw)
    return r.returncode, r.stdout


def main():
    commit, suffix = sys.argv[1], sys.argv[2]
    only = sys.argv[3:]
    old = "/tmp/vf-retro-%s" % commit
    sh(["git", "-C", ROOT, "worktree", "remove", "--force", old])
    shutil.rmtree(old, ignore_errors=True)
    rc, out = sh(["git", "-C", ROOT, "worktree", "add", "-q", "--detach", old, commit])
    if rc:
        raise SystemExit(out)
    try:
        for mp in sorted(glob.glob(os.path.join(ROOT, "seeded", "*", "meta.json"))):
            m = json.load(open(mp))
            name = m["id"]
            tag = name.split("-")[1]
            if not tag.endswith(suffix) or (only and name not in only):
                continue
            wt = "/tmp/vf-retro-wt-%s" % name
            sh(["git", "-C", "/repo", "worktree", "remove", "--force", wt])
            shutil.rmtree(wt, ignore_errors=True)
            sh(["git", "-C", "/repo", "worktree", "add", "-q", "--detach", wt, "HEAD"])
            try:
                rc, out = sh(["git", "-C", wt, "apply", os.path.join(os.path.dirname(mp),
                                                                     "patch.diff")])
                if rc:
                    # the patch was written against an earlier HEAD of /repo (fix: commits
                    # since then): fall back to a three-way merge on the recorded blobs
                    rc, out = sh(["git", "-C", wt, "apply", "--3way",
                                  os.path.join(os.path.dirname(mp), "patch.diff")])
                if rc:
                    print(name, "patch does not apply", out[:200])
                    continue
                props = sorted({k.split("/")[0] for k in (m.get("checks") or {})}) or \
                    [m["property"]]
                env = dict(os.environ, VERIF_REPO_DIR=wt,
                           VERIF_EVIDENCE_DIR="/tmp/vf-retro-ev-" + name,
                           VERIF_REPLAY_DIR="/tmp/vf-retro-rp-" + name)
                res = {}
                for p in props:
                    rc, out = sh([os.path.join(old, "check"), p, "--tier", "quick"], env=env,
                                 timeout=3600)
                    res[p] = rc
                verdict = "yes" if any(v == 1 for v in res.values()) else (
                    "inconclusive" if any(v == 2 for v in res.values()) else "no")
                m["caught_before_round"] = verdict
                m["caught_before_round_detail"] = {
                    "verif_commit": commit, "exit_codes": res,
                    "ran": "checks of /verif at %s (quick tier) on the patched tree" % commit}
                json.dump(m, open(mp, "w"), indent=1)
                print(name, verdict, res, flush=True)
            finally:
                sh(["git", "-C", "/repo", "worktree", "remove", "--force", wt])
                shutil.rmtree(wt, ignore_errors=True)
                shutil.rmtree("/tmp/vf-retro-ev-" + name, ignore_errors=True)
                shutil.rmtree("/tmp/vf-retro-rp-" + name, ignore_errors=True)
    finally:
        sh(["git", "-C", ROOT, "worktree", "remove", "--force", old])
        shutil.rmtree(old, ignore_errors=True)


if __name__ == "__main__":
    main()
