#!/usr/bin/env python3
"""Maintain /verif/known_findings.json (developer tool; never run by a check).

  tools/findings.py fixed <PROP> <commit> <key> "<what failed>"
  tools/findings.py known <PROP> <key> "<what fails>"
"""
import json
import sys

P = "/verif/known_findings.json"
d = json.load(open(P))
kind = sys.argv[1]
if kind == "fixed":
    prop, commit, key, what = sys.argv[2:6]
    d["findings"] = [f for f in d["findings"] if f["key"] != key]
    d["findings"].append({"status": "fixed", "property": prop, "key": key, "commit": commit,
                          "what": what,
                          "line": "fixed: property=%s %s %s" % (prop, commit, what)})
elif kind == "known":
    prop, key, what = sys.argv[2:5]
    d["findings"] = [f for f in d["findings"] if f["key"] != key]
    d["findings"].append({"status": "known", "property": prop, "key": key, "what": what})
json.dump(d, open(P, "w"), indent=1)
print(len(d["findings"]), "entries")
