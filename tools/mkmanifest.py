#!/usr/bin/env python3
"""Regenerate /verif/MANIFEST.json from the table below (kept next to the code so
that the manifest always matches what ./check implements)."""
import json
import os

ROOT = os.path.dirname(os.path.dirname(os.path.abspath(__file__)))

BASELINE = ("cd /repo && /venv/bin/python -m pytest -ra -q -p no:cacheprovider "
            "--timeout=900 --continue-on-collection-errors")

TRUST = ("Trusted base: numpy/scipy/PyWavelets numerics used by the reference oracles, the "
         "harness's own generators and tolerances (stated next to each oracle), CPU/numpy "
         "backend only (no CuPy/MPI/torch in this sandbox). Sampled, not exhaustive: holds on "
         "the executions listed in the evidence file.")

# id -> (technique, level text, design ref)
CHECKS = {
    "C05": ("reference-model monitor: explicit DFT-matrix oracle on generated shapes/axes/"
            "center/norm/oshape/dtype, plus round-trip, Parseval and dtype postconditions",
            "Every generated configuration is executed through the real fft/ifft (and linop.FFT/"
            "IFFT) and compared entry-wise with the explicit centred DFT matrix definition at "
            "1e-10 (complex128); exploration over shapes 1-4 dims, all axes subsets incl. "
            "negative/unsorted, both centerings and norms, centred output shapes, 4 dtypes.",
            "DESIGN.md section 4, C05"),
}

NOT_YET = "check not built yet in this session (work in progress; see DESIGN.md section 4)"


def main():
    props = [json.loads(l)["id"] for l in open(os.path.join(ROOT, "properties.jsonl"))]
    checks = []
    na = []
    for pid in props:
        if pid not in CHECKS:
            na.append({"property_id": pid, "reason": NOT_YET})
            continue
        tech, text, ref = CHECKS[pid]
        checks.append({
            "property_id": pid,
            "quick_cmd": "./check %s --tier quick" % pid,
            "thorough_cmd": "./check %s --tier thorough" % pid,
            "evidence_file": "/verif/evidence/%s.json" % pid,
            "replay_cmd_template": "./check %s --replay {path}" % pid,
            "engine": "vf",
            "level_claimed": {"category": "exploration", "text": text, "design_ref": ref},
            "level_note": TRUST,
            "technique": tech,
        })
    man = {
        "version": 1,
        "setup_cmd": ("/venv/bin/python -m pip install --quiet --no-index --find-links "
                      "/opt/veriftools/wheels --target /verif/.deps icontract deal"),
        "hooks": {
            "guard": "SIGPY_VERIF",
            "enable": ("no source hooks: monitors attach from the harness by patching "
                       "Linop.apply, Prox.__call__, Alg.update/done, App.run and module "
                       "functions at import time in every worker (vf/monitors); workers import "
                       "sigpy from /repo's working tree via PYTHONPATH"),
            "baseline_off_cmd": BASELINE,
            "source_commits": [],
            "add_only": True,
        },
        "engines": [{
            "name": "vf", "path": "/verif/vf",
            "serves_properties": [c["property_id"] for c in checks],
            "kind_free_text": ("runtime monitoring: class-level contracts/invariant hooks on the "
                               "real sigpy classes (icontract postcondition on Prox.__call__, "
                               "wrappers on Linop.apply / Alg.update / App.run), reference-model "
                               "oracles in pure numpy, offline trace checkers over recorded "
                               "solver histories, numba bounds-check sanitizer "
                               "(NUMBA_BOUNDSCHECK=1) for the JIT kernels"),
        }],
        "checks": checks,
        "not_applicable": na,
        "notes": ("Entry point ./check <ID> [--tier quick|thorough] [--replay PATH]; env "
                  "VERIF_SEED, VERIF_TIER, VERIF_REPO_DIR. Exit 0 held / 1 VIOLATION / 2 "
                  "inconclusive (deciding monitor not reached). Known findings: "
                  "/verif/known_findings.json."),
    }
    with open(os.path.join(ROOT, "MANIFEST.json"), "w") as fh:
        json.dump(man, fh, indent=1)
    print("wrote MANIFEST.json: %d checks, %d not_applicable" % (len(checks), len(na)))


if __name__ == "__main__":
    main()
