#!/usr/bin/env python3
"""Regenerate /verif/MANIFEST.json from the table below (kept next to the code so
that the manifest always matches what ./check implements)."""
import json
import os

ROOT = os.path.dirname(os.path.dirname(os.path.abspath(__file__)))

BASELINE = ("cd /repo && /venv/bin/python -m pytest -ra -q -p no:cacheprovider "
            "--timeout=900 --continue-on-collection-errors")

TRUST = ("Trusted base: numpy/scipy/PyWavelets numerics used by the reference oracles, the "
         "harness's own generators and tolerances (stated next to each oracle), CPU/numpy "
         "backend only (no CuPy/MPI/torch in this sandbox). Sampled, not exhaustive: holds on "
         "the executions listed in the evidence file.")

# id -> (technique, level text, design ref)
CHECKS = {
    "C01": ("reference-model monitor: inner-product adjoint identity and dense M_{A.H} == M_A^H "
            "on the real operator objects, over generated operator classes, parameter grids "
            "and expression trees; numba bounds-check sanitizer in the thorough tier",
            "Every generated operator (33 leaf classes incl. MRI factories, random trees of "
            "depth <= 4) is built from the working tree and its real .H object is tested with "
            "<Ax,y> = <x,A^H y> on Gaussian and sparse complex pairs at 1e-10, with swapped "
            "shapes, A.H.H = A, and, for operators with <= 48 unknowns, entry-wise equality of "
            "the dense matrices (all x, y for that configuration).",
            "DESIGN.md section 4, C01"),
    "C02": ("invariant hooks on Linop.apply / Prox.__call__ (byte-level non-mutation of inputs "
            "and captured arrays at every application, incl. inside solver runs), "
            "before/after monitors on the public array functions, C-linearity and "
            "history-determinism oracles, fresh-interpreter dtype-history check",
            "Class-level hooks observe every operator / prox application of the run and compare "
            "blake2b digests of the input and of all captured arrays before and after; 39 "
            "public functions are called with generated (also read-only) arguments; linearity "
            "A(ax+y) = aA(x)+A(y) with a = i and random complex a at 1e-10; repeated "
            "application before/after .H/.N are taken and applied at 1e-12.",
            "DESIGN.md section 4, C02"),
    "C03": ("reference-model monitor: numpy-only evaluation of the tree description "
            "(np.split/np.concatenate as the definition of stacking along an axis) vs the real "
            "algebra; exact-output-shape hook on every Linop.apply; misfit operands must raise",
            "Random expression trees over all shape-adaptable leaves with stacking axes in "
            "[-ndim, ndim) and None are compared with an independent matrix-algebra evaluator "
            "at 1e-10 on Gaussian data and on all unit vectors for <= 64 inputs; every node's "
            "advertised shapes are compared with independently predicted ones; the apply hook "
            "checks exact output shape at every (nested) application; 11 classes of misfit "
            "operand sets must be rejected at construction, also in workers started with "
            "python -O.",
            "DESIGN.md section 4, C03"),
    "C04": ("reference-model monitor: real A.N vs real A.H(A(.)) on complex data, exhaustive "
            "1-D block settings, Toeplitz NUFFT normal within the stated accuracy, PSD check",
            "A.N is compared with A.H(A x) at 1e-10 for all leaf classes, all 1-D block "
            "(size, stride) settings up to N = 8/10 and random 2-D/3-D ones (overlap, tiling, "
            "gaps, non-dividing), trees, and at 2*eps(oversamp, width) for the Toeplitz NUFFT "
            "normal; <A.N x, x> must be real non-negative.",
            "DESIGN.md section 4, C04"),
    "C06": ("reference-model monitor: explicit NDFT matrix vs real nufft with a guarded relative "
            "l2 metric against the stated thresholds; periodicity, exact adjointness, Gram and "
            "monotone-improvement oracles; directed worst-case probe (known finding)",
            "Every generated case (1-3 transform dims, odd/even, batch axes, 6 coordinate "
            "classes, 6 image classes, 9 (oversamp, width) pairs) runs the real nufft / "
            "nufft_adjoint and compares with the explicit non-uniform DFT matrix: error below "
            "3 % / 0.3 % where the statement gives a figure, periodic to 1e-9, adjoint to 1e-10, "
            "Gram within 2 eps. The worst-case probe reproduces the known finding "
            "C06/kb-kernel-worstcase-multidim on every run.",
            "DESIGN.md section 4, C06"),
    "C07": ("reference-model monitor: pure-Python kernel-sum loop written from the docstring "
            "(independent I0 power series) vs real interpolate/gridding; exact transposition; "
            "numba bounds-check sanitizer (NUMBA_BOUNDSCHECK=1) in both tiers",
            "Each case runs the real JIT kernels under numba bounds checking and compares every "
            "output element with the documented kernel sum (1e-12 splines, 2e-6 Kaiser-Bessel), "
            "over 1-3 dims incl. length-1 axes, batch shapes, ceil/floor-tie, negative, far "
            "out-of-grid and duplicate coordinates, scalar and per-axis fractional widths and "
            "parameters; <interp x, y> = <x, gridding y> to 1e-12.",
            "DESIGN.md section 4, C07"),
    "C08": ("reference-model monitor: explicit loop definition of strided multi-channel "
            "convolution vs real convolve on random pairs and unit impulses; computed-or-"
            "rejected postcondition; adjoint inner-product identities and returned shapes",
            "For every generated (D, lengths incl. filter longer than data, batch, channels, "
            "strides, mode, real/complex/mixed dtypes) the real convolve must raise or return "
            "exactly the definition's array (shape included) at 1e-10; data and filter adjoints "
            "are checked by <conv(d,f),y> identities on complex operands.",
            "DESIGN.md section 4, C08"),
    "C09": ("reference-model monitor with labelled inputs: every output element names its source "
            "element and is compared exactly with independent index-map definitions; numba "
            "bounds-check sanitizer on for the block kernels",
            "resize (default and explicit shifts), circshift, flip, downsample, upsample, "
            "array_to_blocks, blocks_to_array and their Linop wrappers are run on arrays whose "
            "values are their own flat index; equality with the documented placement is exact; "
            "overlapping, tiling, gapped and non-dividing strides in 1-3 block dims.",
            "DESIGN.md section 4, C09"),
    "C10": ("postcondition monitor on the real Wavelet/InverseWavelet/fwt/iwt: advertised "
            "coefficient shape, isometry, perfect inverse and adjoint identity for every "
            "orthogonal PyWavelets family member",
            "All 75 haar/db/sym/coif names x shapes (1-3 dims, odd, shorter than the filter) x "
            "axes subsets (negative too) x levels x real/complex: ||Wx|| = ||x||, W^H W x = x, "
            "<Wx,y> = <x,W^H y> at 1e-9 and exact advertised shape.",
            "DESIGN.md section 4, C10"),
    "C11": ("icontract postcondition on the real Prox.__call__ evaluating per-class optimality "
            "certificates (KKT / subgradient / Moreau conditions), a variational spot check "
            "and a raised-for-well-formed-input wrapper, driven by hostile inputs",
            "The contract runs for every proximal call of every workload; this check drives all "
            "classes and nestings (Conj, Stack, UnitaryTransform, L2Reg with inner prox) with "
            "gaussian, zero, exactly-on-threshold, ball-boundary, interior, tie and "
            "repeated-eigenvalue inputs, scalar and array alpha, and certifies each result as "
            "the minimiser at 1e-9; projections are also checked for idempotence; the "
            "thresholding functions go through the same certificates.",
            "DESIGN.md section 4, C11"),
    "C12": ("offline trace checker over the recorded ConjugateGradient update history against a "
            "dense A-orthonormal Arnoldi reference: Krylov optimality, monotone A-norm error, "
            "tracked residual, local line-search optimality / conjugacy, in-place update, "
            "breakdown behaviour on non-PD systems",
            "State snapshots after every update of the real solver (n <= 12, cond <= 1e3, "
            "real/complex, with/without preconditioner, Linop or function, all max_iter "
            "classes) are compared with the exact Krylov-optimal iterate where a float64 drift "
            "model (1e-12 kappa^(k/2) <= 1e-4) says the exact-arithmetic claim transfers; "
            "monotonicity, residual identity, exact line search and A-conjugacy of successive "
            "steps are checked at every step. Fault injection: an operator that raises once "
            "mid-run and a retried update must reproduce the undisturbed iterates; done() is "
            "asked twice at every query.",
            "DESIGN.md section 4, C12"),
    "C13": ("offline trace checkers over GradientMethod / PrimalDualHybridGradient histories: "
            "monotone objective, ISTA/FISTA rate bounds (incl. Nesterov's worst-case quadratic "
            "and long ill-conditioned runs), saddle-point invariance, Fejer monotonicity in the "
            "shifted-pair M-norm, proximal-point residual rate, bounded progress",
            "Every update of the real solvers is snapshotted at the API boundary and checked "
            "against certified reference minimisers (prox-gradient residual <= 1e-10): objective "
            "gap below the ISTA / FISTA bound at every k, no increase without acceleration, "
            "PDHG started at a saddle stays there (also with gamma_primal/gamma_dual), the "
            "M-norm distance and the fixed-point residual never increase with constant scalar "
            "or array steps, and strongly convex problems reach 5 % of the initial error within "
            "4000 updates (50x iteration slack).",
            "DESIGN.md section 4, C13"),
    "C14": ("reference-model monitor: documented objective at the returned x vs a certified "
            "optimum (closed form, FISTA with certificate, or dense ADMM with Fenchel duality "
            "gap <= 1e-10) over the solver x lamda x z x proxg x G x parameter cross product; "
            "documented-exclusion-must-raise postcondition",
            "Each case builds the real LinearLeastSquares for one configuration of the "
            "quantifier's cross product, runs it with a stated iteration budget and requires "
            "the documented objective at its output to be within 1e-8 (CG) / 1e-5 (GM, PDHG) / "
            "1e-4 (ADMM) of the certified optimum; supported combinations must not raise, "
            "excluded ones must.",
            "DESIGN.md section 4, C14"),
    "C15": ("trace monitor on Alg.update/Alg.done/App.run (exactly-once iteration counter, "
            "logical-step update budget) plus offline checks: at most max_iter updates, run() "
            "returns what the algorithm holds, early stop only at fixed points (two further "
            "updates leave the solution unchanged), done() pure and monotone, power-iteration "
            "estimate monotone and bounded",
            "All 12 Alg subclasses (20 instance classes incl. zero start + sparsity prox + tiny "
            "dual step, box corners, b = 0, x0 = x*) and 10 Apps are driven by the canonical "
            "loop, App.run and random done/update interleavings for max_iter in {0,1,2,7,50}; "
            "the update hook checks the counter on every Alg object of the process.",
            "DESIGN.md section 4, C15"),
    "C16": ("reference-model monitor: real Sense operator vs explicit multi-coil encoding "
            "(explicit centred DFT / exact NDFT), adjoint identity, batching invariance over all "
            "coil_batch_size values; reconstructions vs dense normal-equation solution or a "
            "certified optimum of the documented objective",
            "Operator cases (2-D/3-D, 1-6 coils, Cartesian / random / radial / out-of-range "
            "coordinates, weights none / k-space / per-coil, time segmentation) compare forward, "
            "adjoint and every batch size with the unbatched operator at 1e-12 and with the "
            "explicit encoding; SenseRecon is compared with (A^H A + lamda I)^-1 A^H y from the "
            "dense matrix of the real operator for every applicable solver, TotalVariationRecon "
            "and L1WaveletRecon (Haar on power-of-two shapes, verified unitary) with a dense "
            "ADMM optimum certified by a Fenchel duality gap.",
            "DESIGN.md section 4, C16"),
    "C17": ("postcondition monitor on the maps / eigenvalues returned by the real EspiritCalib; "
            "recovery of band-limited synthetic maps in the well-posed regime; numba bounds-"
            "check sanitizer on the block kernel; PowerMethod trace monitor",
            "For random and synthesised k-space (2-D 8-24, 3-D 8-12, 2-8 coils, calibration "
            "and kernel widths, thresholds, crop values, complex64/128) every voxel's coil "
            "vector must have norm 0 or 1, zero exactly where the eigenvalue is <= crop, first "
            "coil real non-negative, eigenvalues in [0, 1]; maps synthesised with k-space "
            "support 3 are recovered to 1e-3 (4e-2 at thresh 0.02) where the calibration is "
            "well posed.",
            "DESIGN.md section 4, C17"),
    "C18": ("contract monitor on poisson(): kernel-call counter on the module-global _poisson "
            "(termination decided on logical steps), postconditions on the returned mask, "
            "bit-exact numpy.random state comparison, reproducibility; numba bounds-check "
            "sanitizer",
            "Each generated request (shapes 16-128, accel 1.01-12 incl. unreachable ones, "
            "calibration blocks, tol, seeds, crop, 5 dtypes, arbitrary prior RNG state) must "
            "return a binary mask within tol of the acceleration with the calibration block "
            "full and no sample at normalised radius >= 1, or raise ValueError, within 200 "
            "kernel calls; the global RNG state must be bit-identical afterwards and a second "
            "call must give the same mask. Unseeded requests are decided on every clause but "
            "reproducibility; small seeded grids are also run in workers started with "
            "NUMBA_DISABLE_JIT=1 (interpreted kernel).",
            "DESIGN.md section 4, C18"),
    "C19": ("postcondition / reference-relation monitor on the Cayley-Klein parameters of the "
            "five real simulators (unitarity, zero-pulse identity, SU(2) composition of split "
            "waveforms) and round trip b -> b2rf -> hard-pulse simulation -> |B|",
            "abrm, abrm_nd, abrm_hp, abrm_ptx and optcont.blochsim are run on RF waveforms of "
            "1-256 samples from 1e-2 rad to > pi per sample with random gradients: "
            "| |a|^2+|b|^2-1 | <= 1e-12(1+Nt), zero RF gives b = 0 and |a| = 1, and simulating "
            "two halves and composing their rotations equals simulating the whole (1e-11); "
            "beta polynomials of every dzrf ptype x ftype and random complex ones (max|B| <= "
            "0.98) are reproduced by simulating b2rf(b) to 1e-5 at 256 frequencies.",
            "DESIGN.md section 4, C19"),
    "C20": ("postcondition monitor on trap_grad / min_trap_grad waveforms (end points, "
            "amplitude, slew, area) and on spokes_grad (limits over the whole concatenated "
            "waveform, per-spoke k-space increments, slice-select lobes), with a tracing "
            "wrapper on the module-global trap_grad",
            "Log-uniform areas, amplitudes, slew limits and dwell times incl. the "
            "triangle/trapezoid boundary, integer ramp counts and sub-sample areas; spokes with "
            "1-6 locations and increments from 1e-3 to 30 cycles/cm; directed cases reproduce "
            "the known finding C20/spokes-blip-longer-than-subpulse on every run.",
            "DESIGN.md section 4, C20"),
    "C05": ("reference-model monitor: explicit DFT-matrix oracle on generated shapes/axes/"
            "center/norm/oshape/dtype, plus round-trip, Parseval and dtype postconditions",
            "Every generated configuration is executed through the real fft/ifft (and linop.FFT/"
            "IFFT) and compared entry-wise with the explicit centred DFT matrix definition at "
            "1e-10 (complex128); exploration over shapes 1-4 dims, all axes subsets incl. "
            "negative/unsorted, both centerings and norms, centred output shapes, 4 dtypes.",
            "DESIGN.md section 4, C05"),
}

NOT_YET = "check not built yet in this session (work in progress; see DESIGN.md section 4)"


def main():
    props = [json.loads(l)["id"] for l in open(os.path.join(ROOT, "properties.jsonl"))]
    checks = []
    na = []
    for pid in props:
        if pid not in CHECKS:
            na.append({"property_id": pid, "reason": NOT_YET})
            continue
        tech, text, ref = CHECKS[pid]
        checks.append({
            "property_id": pid,
            "quick_cmd": "./check %s --tier quick" % pid,
            "thorough_cmd": "./check %s --tier thorough" % pid,
            "evidence_file": "/verif/evidence/%s.json" % pid,
            "replay_cmd_template": "./check %s --replay {path}" % pid,
            "engine": "vf",
            "level_claimed": {"category": "exploration", "text": text, "design_ref": ref},
            "level_note": TRUST,
            "technique": tech,
        })
    man = {
        "version": 1,
        "setup_cmd": ("/venv/bin/python -m pip install --quiet --no-index --find-links "
                      "/opt/veriftools/wheels --target /verif/.deps icontract deal"),
        "hooks": {
            "guard": "SIGPY_VERIF",
            "enable": ("no source hooks: monitors attach from the harness by patching "
                       "Linop.apply, Prox.__call__, Alg.update/done, App.run and module "
                       "functions at import time in every worker (vf/monitors); workers import "
                       "sigpy from /repo's working tree via PYTHONPATH"),
            "baseline_off_cmd": BASELINE,
            "source_commits": [],
            "add_only": True,
        },
        "engines": [{
            "name": "vf", "path": "/verif/vf",
            "serves_properties": [c["property_id"] for c in checks],
            "kind_free_text": ("runtime monitoring: class-level contracts/invariant hooks on the "
                               "real sigpy classes (icontract postcondition on Prox.__call__, "
                               "wrappers on Linop.apply / Alg.update / App.run), reference-model "
                               "oracles in pure numpy, offline trace checkers over recorded "
                               "solver histories, numba bounds-check sanitizer "
                               "(NUMBA_BOUNDSCHECK=1) for the JIT kernels"),
        }],
        "checks": checks,
        "not_applicable": na,
        "notes": ("Entry point ./check <ID> [--tier quick|thorough] [--replay PATH]; env "
                  "VERIF_SEED, VERIF_TIER, VERIF_REPO_DIR. Exit 0 held / 1 VIOLATION / 2 "
                  "inconclusive (deciding monitor not reached). Known findings: "
                  "/verif/known_findings.json."),
    }
    with open(os.path.join(ROOT, "MANIFEST.json"), "w") as fh:
        json.dump(man, fh, indent=1)
    print("wrote MANIFEST.json: %d checks, %d not_applicable" % (len(checks), len(na)))


if __name__ == "__main__":
    main()
